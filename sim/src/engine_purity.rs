//! purity-sim (C16): the same program text must give the same value, output and error
//!  (a) in a fresh process, (b) after any history of other evaluations in one process,
//!  (c) while other evaluations run on other (simulated) threads under a seeded scheduler,
//!  (d) in a build without optimisation and with debug assertions / overflow checks.

use crate::acc::{Acc, Tier, Violation};
use crate::alloc;
use crate::gen_program;
use crate::rng::{mix, Fold, Rng};
use crate::runner::{self, Outcome, Pending, Plan};
use crate::sched::{Policy, Sched, Switch};
use crate::shadow;
use crate::sim::{Finding, Injected};
use serde_json::{json, Value};
use std::collections::{BTreeSet, VecDeque};
use std::panic::{catch_unwind, AssertUnwindSafe};
use std::sync::{Arc, Mutex, OnceLock};

pub const TAG: u64 = 0xC16;
pub const PROPERTY: &str = "C16";
pub const BUDGET: u64 = 20_000;

/// step budget of one evaluation: the general one, more for the few very long texts of the batch
pub fn budget_for(src: &str) -> u64 {
    BUDGET.max(src.len() as u64)
}
pub const DISCARD: &str = "DISCARD";

pub fn batch_size(tier: Tier) -> usize {
    match tier {
        Tier::Quick => 300,
        Tier::Thorough => 3000,
    }
}

pub fn scenarios(tier: Tier) -> u64 {
    match tier {
        Tier::Quick => 3_000,
        Tier::Thorough => 60_000,
    }
}

const PROBES: &[&str] = &[
    "v0;",
    "v1 + 1;",
    "f0();",
    "[v0, v2];",
    "p0;",
    "v3 = 1;",
    "functie g() { v0 }; g();",
    "stel x = 1; v0;",
    "lengte(v1);",
    "print(\"{}\", v0);",
    // texts that fail in the lexer / parser (an error slot or partial state kept there would show later)
    "stel = 1",
    "(1 + ",
    "[1, 2",
    "stel v0 = \"open",
    "als { }",
    "stel één = 1; één + 1",
    "v0 v1 )",
    // shapes DESIGN.md 4.3 excludes from generated workloads because the documentation does not fix
    // their meaning - as probes they are welcome: whatever they do in a fresh process (a value, an
    // error, a bounds-checked panic, a guard-rail stop) they must do after any history and under any
    // schedule and build. They read slots and stack positions that only left-over state could fill.
    "stel x = functie f() { x }(); x",
    "stel a = 1; stel b = functie g() { b }(); [a, b]",
    "stel g = [functie f() { 1 }, g]; g[1]",
    "stel x = x;",
    "als ja { stel a = 1 }",
    "functie f() { 1 } f(1, 2)",
    "functie h(a, b, c) { [a, b, c] } h(1)",
    // indices far outside a value, below its start and past its end, read and written
    "stel s = string(123); s[-9] = \"x\"; s",
    "stel a = [1, string(2)]; a[-5] = 0; a",
    "[\"abc\"[-7], [1, 2][-3], string(12)[2]]",
    // ill-typed operations on a parameter (the fused local-with-literal instructions), on null, and
    // a return where there is no function to leave
    "functie f(s) { [s < 1, s + 1] } f(string(5))",
    "functie p() { }; [p() || \"abc\", p() && [1.5, 2], string(77) || p(), p() || 2.5]",
    "stel a = [1.5, \"x\"]; antwoord a;",
    // numbers and text at the edges: signs in division and remainder, special float values, conversions
    // in both directions, formatting of very large / small / negative-zero floats, multi-byte characters
    "[7 / 2, -7 / 2, 7 / -2, 7 % 3, -7 % 3, 7 % -3, 0 - 7]",
    "[7.5 / 2.0, -7.5 / 2.0, 7.5 % 2.0, -7.5 % 2.0, 1.0 / 3.0, 2.0 / 3.0 * 3.0, 5.0 % 0.0]",
    "[1.0 / 0.0, -1.0 / 0.0, 0.0 / 0.0, 0.0 * -1.0]",
    "[int(2.7), int(-2.7), int(\"42\"), int(\" 7\"), int(ja), int(nee), int(\"99999999999999999999\")]",
    "[float(3), float(\"2.5\"), float(\"1e3\"), float(\".5\"), float(\"-0.0\"), float(ja)]",
    "[string(2.50), string(1.0 / 3.0), string(100000000000000000000.0), string(0.000001), string(-0.0), string(ja), string(-12)]",
    "[bool(0), bool(1), bool(\"\"), bool(\"a\"), bool(0.0), bool([]), bool([0])]",
    "[lengte(\"héé∂\"), \"héé∂\"[1], \"héé∂\"[-1], lengte([]), lengte(\"\")]",
    "stel s = string(12345); s[1] = \"é\"; s[3] = \"∂\"; [s, lengte(s), s[1], s[4]]",
    "[1 / 0]",
    "[2.5, \"x\", 1 % 0]",
    "print(\"{} {} {}\", 1.5, [1, \"a\"], ja); print(\"{}\"); print(\"{} {}\", 1); [-(-5), -(2.5), !ja, !(1 < 2)]",
    "[type(1), type(1.5), type(\"a\"), type([1]), type(ja), type(functie() { 1 })]",
    "float(\"abc\")",
    "print(\"{} {}\", -0.0, 0.0); [string(-0.0), string(0.0)]",
    // error paths with several equally good candidates (repeated parameter names, undefined names next
    // to declared names that differ in capitalisation only): whichever is reported, it is always the same
    "functie f(a, b, c, a, b, c) { [a, b, c] } f(1, 2, 3, 4, 5, 6)",
    "stel Totaal = 1; stel TOTAAL = 2; stel totaaL = 3; stel tOtaal = 4; totaal;",
    "stel ab = 1; stel ba = 2; stel aB = 3; stel Ba = 4; functie g(ab, Ab, AB) { bA }; g(1, 2, 3)",
    "functie f(x, y, x, y) { onbekend }; stel F = 1; stel ff = 2; f(1, 2, 3, 4) + FF",
    "stel i = 0; stel n = 0; zolang i < 3 { i = i + 1; functie g(a) { als a == 2 { volgende; }; [a, 2.5] }; g(i); n = n + 1; }; [string(n), i]",
    "stel i = 0; zolang i < 1 { i = i + 1; functie f() { stop } f() } \"klaar\"",
    "stel n = 0.0 / 0.0; stel i = 1.0 / 0.0; [n < 1.0, n <= 1.0, n > 1.0, n >= n, 1.0 <= n, n == n, n != n, i > n, i - i < 1.0, als n < 1.0 { 1 } anders { 2 }]",
    // texts that end in the first character of a two-character token (what follows the text in memory
    // must not matter)
    "1 /",
    "stel a = 1; a =",
    "ja &",
    "ja |",
    "1 <",
    "2 >",
    "nee; !",
    // rendering of deeply nested values, repeatedly (every thread of a run may be in here at once)
    "stel d = [[[[[[[[1, \"x\"]]]]]]], 2.5]; stel i = 0; zolang i < 4 { print(\"{} {}\", [d, [d]], i); i = i + 1; }; d",
];

/// The batch: generated programs over one small shared identifier pool, probe programs that use a
/// commonly declared name without declaring it, a program with many constants. Programs are made
/// on demand (every scenario runs in a process of its own and needs only a few of them).
pub struct Batch {
    seed: u64,
    n: usize,
    cache: Mutex<std::collections::BTreeMap<usize, String>>,
}

impl Batch {
    pub fn len(&self) -> usize {
        self.n
    }
    pub fn get(&self, i: usize) -> String {
        let mut c = self.cache.lock().unwrap();
        if let Some(s) = c.get(&i) {
            return s.clone();
        }
        let s = make_program(self.seed, i);
        c.insert(i, s.clone());
        s
    }
}

pub fn batch(seed: u64, tier: Tier) -> &'static Batch {
    static B: OnceLock<Batch> = OnceLock::new();
    let b = B.get_or_init(|| Batch { seed, n: batch_size(tier), cache: Mutex::new(Default::default()) });
    assert!(b.seed == seed && b.n == batch_size(tier), "one batch per process");
    b
}

/// Probes added after the first list filled the probe slots of the quick batch (wave 16): they take
/// the first slots with `i % 5 == 3`.
const PROBES2: &[&str] = &[
    // placeholders inside the text of an earlier argument (a heap value is being rendered - a
    // scheduling point - while whatever print holds is held); repeated, so that in a storm several
    // threads are inside print at once
    "stel d = [[[\"{}\", \"a{}b\"]], 2.5]; stel i = 0; zolang i < 4 { print(\"{} en {} en {}\", d, \"{}\", i); i = i + 1; }; d",
    "print(\"{} en {}\", \"{}\", 1); print(\"{}{}\", [\"{}\"], [2.5, \"{}\"]); print(\"{} {}\", string(12), [1.5, \"{}\"], 3);",
    // every conversion builtin on every kind of value, rendered (formatting and parsing paths)
    "[string(1.0), string(-2.50), string(100000000000000000000.0), string(0.1 + 0.2), float(\"2.5\"), float(3), int(\"42\"), int(2.9), int(-2.9), string(ja), type(1), type(2.5), type([]), lengte(\"\u{e9}\u{1F600}a\"), lengte([])]",
    "stel s = \"a\\nb\\tc\\\"d\"; print(\"{}|{}\", s, [s]); [s, lengte(s), [s, s], s == \"a\\nb\\tc\\\"d\"]",
];

fn make_program(seed: u64, i: usize) -> String {
    if i % 5 == 4 {
        PROBES[(i / 5) % PROBES.len()].to_string()
    } else if i % 5 == 3 && i / 5 < PROBES2.len() {
        PROBES2[i / 5].to_string()
    } else if i % 100 == 27 {
        // very long texts: counters of the compiler and the symbol table pass 16-bit boundaries
        // (66 000 block-scoped declarations whose slot is re-used; 12 000 statements = 120 000 bytes of
        // straight-line code) - the documented limits (65 535 constants, locals, jump distance) are not
        // exceeded
        match (i / 100) % 3 {
            0 => format!("{}stel z = 5; z", "{ stel a = 1; } ".repeat(66_000)),
            1 => format!("stel t = 0; {}t", "t = t + 1; ".repeat(12_000)),
            _ => {
                // the largest call the compiler accepts: 255 parameters and arguments
                let ps: Vec<String> = (0..255).map(|k| format!("a{}", k)).collect();
                let xs: Vec<String> = (0..255).map(|k| if k % 50 == 7 { format!("string({})", k) } else { k.to_string() }).collect();
                format!("functie f({}) {{ [a0, a254, a100, a7] }}; f({})", ps.join(", "), xs.join(", "))
            }
        }
    } else if i % 50 == 17 {
        // deep nesting (native recursion in the parser, the compiler, the collector and the renderer:
        // whatever bounds it must not depend on the build, the thread or what ran before)
        let k = (i / 50) % 6;
        let nest = |open: &str, inner: &str, close: &str, d: usize| format!("{}{}{}", open.repeat(d), inner, close.repeat(d));
        match k {
            0 => format!("{} + 1", nest("(", "1", ")", 600)),
            1 => nest("[", "1.5", "]", 150),
            2 => nest("(-", "1", ")", 300),
            3 => nest("{ ", "7", " }", 150),
            4 => nest("als ja { ", "string(3)", " }", 120),
            _ => format!("{}()", nest("functie() { ", "[2.5]", " }", 40)),
        }
    } else if i % 50 == 7 {
        // many constants (a constant pool cached between evaluations would show here)
        let items: Vec<String> = (0..120)
            .map(|k| if k % 3 == 0 { format!("\"s{}\"", k + i) } else if k % 3 == 1 { format!("{}.5", k + i) } else { format!("{}", k * 7 + i) })
            .collect();
        format!("stel v0 = [{}]; functie f0() {{ v0 }}; f0();", items.join(", "))
    } else {
        gen_program::generate(mix(seed, TAG, i as u64), i % 2 == 0, if i % 4 == 1 { 70 } else { 0 }).src
    }
}

pub fn plain_digest(src: &str) -> String {
    let mut plan = Plan::plain();
    plan.budget = budget_for(src);
    let r = runner::run_eval(src, &plan, 1, true);
    if r.injected == Injected::Budget {
        return DISCARD.to_string();
    }
    digest_of(&r.outcome, &r.out, &r.injected)
}

pub fn digest_of(o: &Outcome, out: &str, inj: &Injected) -> String {
    match inj {
        Injected::Guard(g) => format!("wild:{} | out={:?}", g, out),
        _ => format!("{} | out={:?}", o.render(), out),
    }
}

fn kind_of_digest(d: &str) -> String {
    if d.starts_with("ok ") {
        "ok".into()
    } else if d.starts_with("err ") {
        let k = d[4..].split(':').next().unwrap_or("?");
        format!("err:{}", k)
    } else if d.starts_with("panic ") {
        // site without line numbers: file + message start
        let rest = &d[6..];
        let file = rest.split(':').next().unwrap_or("?");
        let msg: String = rest
            .split('[')
            .nth(1)
            .unwrap_or("")
            .split(']')
            .next()
            .unwrap_or("")
            .chars()
            .filter(|c| !c.is_ascii_digit() && *c != '-')
            .take(36)
            .collect();
        format!("panic@{}[{}]", file, msg.split_whitespace().collect::<Vec<_>>().join(" "))
    } else if d.starts_with("wild:") {
        d.split(' ').next().unwrap_or("wild").to_string()
    } else {
        "?".into()
    }
}

// ---------------------------------------------------------------------------------------------
// reference digests (from fresh processes), handed to workers through a file

static REFS: OnceLock<Vec<String>> = OnceLock::new();

pub fn refs(seed: u64, tier: Tier) -> &'static Vec<String> {
    REFS.get_or_init(|| {
        if let Ok(p) = std::env::var("NLSIM_REFS") {
            if let Ok(t) = std::fs::read_to_string(&p) {
                if let Ok(Value::Array(a)) = serde_json::from_str::<Value>(&t) {
                    return a.iter().map(|x| x.as_str().unwrap_or("").to_string()).collect();
                }
            }
        }
        // stand-alone use: compute them here (not a fresh process each; the check never takes this path)
        let b = batch(seed, tier);
        (0..b.len()).map(|i| plain_digest(&b.get(i))).collect()
    })
}

// ---------------------------------------------------------------------------------------------
// (b) histories

fn mode_for(rng: &mut Rng) -> u8 {
    match rng.below(6) {
        0 => alloc::POISON,
        1 => alloc::MOVE,
        // boxes scattered over all alignments the layout allows (the fresh-process reference has them
        // all at 8 modulo 16): a result must not depend on the low bits of an address
        2 | 3 => alloc::SCATTER0 + rng.below(200) as u8,
        _ => alloc::PLAIN,
    }
}

pub struct HistoryRun {
    pub digests: Vec<String>,
    pub steps: u64,
    pub log: u64,
}

pub fn run_history(programs: &[String], modes: &[u8]) -> HistoryRun {
    let mut digests = Vec::new();
    let mut steps = 0;
    let mut log = Fold::new();
    for (i, src) in programs.iter().enumerate() {
        let mut plan = Plan::plain();
        plan.budget = budget_for(src);
        plan.alloc_mode = modes.get(i).cloned().unwrap_or(alloc::PLAIN);
        plan.tail = Some(i as u64);
        let r = runner::run_eval(src, &plan, (i + 1) as u64, true);
        steps += r.steps;
        let d = if r.injected == Injected::Budget { DISCARD.to_string() } else { digest_of(&r.outcome, &r.out, &r.injected) };
        log.u64(r.log_hash);
        digests.push(d);
    }
    HistoryRun { digests, steps, log: log.0 }
}

fn history_spec(programs: &[String], modes: &[u8], target: usize) -> Value {
    json!({
        "engine": "purity-sim",
        "kind": "purity",
        "mode": "history",
        "programs": programs,
        "alloc_modes": modes.iter().map(|m| alloc::mode_name(*m)).collect::<Vec<_>>(),
        "target": target,
    })
}

fn scenario_history(acc: &mut Acc, seed: u64, index: u64, tier: Tier, rng: &mut Rng) -> u64 {
    let b = batch(seed, tier);
    let r = refs(seed, tier);
    let len = 10 + rng.usize(60);
    let mut seq: Vec<usize> = Vec::new();
    for _ in 0..len {
        if !seq.is_empty() && rng.chance(1, 8) {
            seq.push(*seq.last().unwrap()); // immediately again
        } else {
            seq.push(rng.usize(b.len()));
        }
    }
    let programs: Vec<String> = seq.iter().map(|i| b.get(*i)).collect();
    let modes: Vec<u8> = (0..len).map(|_| mode_for(rng)).collect();
    acc.begin(&history_spec(&programs, &modes, 0));
    let h = run_history(&programs, &modes);
    acc.count("history_sequences", 1);
    acc.count("evaluations_in_histories", len as u64);
    acc.count("sim_steps", h.steps);
    for (pos, i) in seq.iter().enumerate() {
        if r[*i] == DISCARD || h.digests[pos] == DISCARD {
            acc.count("comparisons_skipped_over_budget", 1);
            continue;
        }
        acc.count("comparisons_history", 1);
        if pos > 0 {
            let mut f = Fold::new();
            f.u64(seq[pos - 1] as u64);
            f.u64(*i as u64);
            acc.distinct("history_predecessor_pairs", f.0);
        }
        if modes[pos] != alloc::PLAIN {
            acc.count("fault_allocator_mode_non_plain", 1);
        }
        if alloc::is_scatter(modes[pos]) {
            acc.count("fault_allocator_mode_scatter", 1);
        }
        if h.digests[pos] != r[*i] {
            let mut sp = history_spec(&programs[..=pos], &modes[..=pos], pos);
            let key = format!("{}->{}", kind_of_digest(&r[*i]), kind_of_digest(&h.digests[pos]));
            sp["expect"] = json!({"class": "history-dependence", "key": key});
            acc.violation(Violation {
                property: PROPERTY.into(),
                class: "history-dependence".into(),
                key,
                detail: format!(
                    "program {} of the batch gives {} in a fresh process but {} as evaluation {} of a history in one process",
                    i, r[*i], h.digests[pos], pos
                ),
                spec: sp,
                seed,
                index,
            });
            break;
        }
    }
    acc.sample(json!({"history": seq, "alloc_modes": modes.iter().map(|m| alloc::mode_name(*m)).collect::<Vec<_>>()}));
    h.log
}

// ---------------------------------------------------------------------------------------------
// (c) sim-threads

#[derive(Clone)]
pub struct ThreadsSpec {
    pub work: Vec<Vec<String>>,
    pub modes: Vec<Vec<u8>>,
    pub handoff: Vec<Vec<bool>>,
    pub policy_seed: u64,
    pub mean: u64,
    pub change_points: Option<Vec<u64>>,
    pub schedule: Option<Vec<Switch>>,
}

#[derive(Clone, Debug)]
pub struct EvalRecord {
    pub tid: usize,
    pub pos: usize,
    pub digest: String,
    pub findings: Vec<Finding>,
    pub steps: u64,
    pub switches: u64,
    pub settled_by: usize,
}

pub struct ThreadsRun {
    pub records: Vec<EvalRecord>,
    pub schedule: Vec<Switch>,
    pub points: u64,
    pub log: u64,
}

struct HandItem {
    pending: Pending,
    from: usize,
    pos: usize,
    out: String,
    injected: Injected,
    findings: Vec<Finding>,
    steps: u64,
    switches: u64,
}

struct Shared {
    sched: Arc<Sched>,
    hand: Mutex<Vec<VecDeque<HandItem>>>,
    records: Mutex<Vec<EvalRecord>>,
}

fn settle_item(sh: &Shared, it: HandItem, by: usize) {
    let (text, mut f2) = runner::settle(it.pending);
    let mut findings = it.findings;
    findings.append(&mut f2);
    let digest = digest_of(&Outcome::Ok(text), &it.out, &it.injected);
    sh.records.lock().unwrap().push(EvalRecord {
        tid: it.from,
        pos: it.pos,
        digest,
        findings,
        steps: it.steps,
        switches: it.switches,
        settled_by: by,
    });
}

fn drain(sh: &Shared, tid: usize) {
    loop {
        let it = sh.hand.lock().unwrap()[tid].pop_front();
        match it {
            Some(it) => settle_item(sh, it, tid),
            None => break,
        }
    }
}

pub fn run_threads(spec: &ThreadsSpec) -> ThreadsRun {
    let t = spec.work.len();
    let policy = match (&spec.schedule, &spec.change_points) {
        (Some(s), _) => Policy::Replay { switches: s.clone(), next: 0 },
        (None, Some(p)) => Policy::ChangePoints { points: p.clone() },
        (None, None) => Policy::Random { mean: spec.mean.max(1) },
    };
    let sched = Arc::new(Sched::new(t, spec.policy_seed, policy));
    let shared = Arc::new(Shared {
        sched: sched.clone(),
        hand: Mutex::new((0..t).map(|_| VecDeque::new()).collect()),
        records: Mutex::new(Vec::new()),
    });
    let mut handles = Vec::new();
    for tid in 0..t {
        let sh = shared.clone();
        let work = spec.work[tid].clone();
        let modes = spec.modes[tid].clone();
        let handoff = spec.handoff[tid].clone();
        let h = std::thread::Builder::new()
            .stack_size(64 << 20)
            .spawn(move || {
                sh.sched.wait_turn(tid);
                let body = catch_unwind(AssertUnwindSafe(|| {
                    for (pos, src) in work.iter().enumerate() {
                        drain(&sh, tid);
                        sh.sched.maybe_switch(tid);
                        let eval_id = (tid as u64) * 100_000 + pos as u64 + 1;
                        let mut plan = Plan::plain();
                        plan.budget = budget_for(src);
                        plan.check_foreign = true;
                        plan.alloc_mode = modes[pos];
                        runner::begin_run(&plan, eval_id, tid, Some(sh.sched.clone()));
                        alloc::set_mode(plan.alloc_mode);
                        let r = catch_unwind(AssertUnwindSafe(|| runner::eval_text(src, Some((tid * 7 + pos) as u64))));
                        alloc::reset_mode();
                        let (res, pending) = runner::finish_run_defer(r, eval_id);
                        match pending {
                            Some(p) => {
                                let item = HandItem {
                                    pending: p,
                                    from: tid,
                                    pos,
                                    out: res.out.clone(),
                                    injected: res.injected.clone(),
                                    findings: res.findings.clone(),
                                    steps: res.steps,
                                    switches: res.stats.switches,
                                };
                                let to = (tid + 1) % sh.hand.lock().unwrap().len();
                                if handoff[pos] && to != tid {
                                    sh.hand.lock().unwrap()[to].push_back(item);
                                } else {
                                    settle_item(&sh, item, tid);
                                }
                            }
                            None => {
                                let digest = if res.injected == Injected::Budget { DISCARD.to_string() } else { digest_of(&res.outcome, &res.out, &res.injected) };
                                sh.records.lock().unwrap().push(EvalRecord {
                                    tid,
                                    pos,
                                    digest,
                                    findings: res.findings.clone(),
                                    steps: res.steps,
                                    switches: res.stats.switches,
                                    settled_by: tid,
                                });
                            }
                        }
                    }
                    drain(&sh, tid);
                }));
                let _ = body;
                sh.sched.finish(tid);
            })
            .unwrap();
        handles.push(h);
    }
    for h in handles {
        let _ = h.join();
    }
    // values handed to a thread that had already finished
    for tid in 0..t {
        drain(&shared, tid);
    }
    {
        let mut sh = shadow::lock();
        sh.reset();
    }
    alloc::flush_parked();
    let mut records = shared.records.lock().unwrap().clone();
    records.sort_by(|a, b| (a.tid, a.pos).cmp(&(b.tid, b.pos)));
    let schedule = sched.schedule();
    let mut log = Fold::new();
    for s in &schedule {
        log.u64(s.at);
        log.u64(s.from as u64);
        log.u64(s.to as u64);
    }
    for r in &records {
        log.str(&r.digest);
        log.u64(r.settled_by as u64);
    }
    ThreadsRun {
        records,
        schedule,
        points: sched.points(),
        log: log.0,
    }
}

fn threads_spec_json(s: &ThreadsSpec, schedule: &[Switch]) -> Value {
    json!({
        "engine": "purity-sim",
        "kind": "purity",
        "mode": "threads",
        "threads": s.work.len(),
        "work": s.work,
        "alloc_modes": s.modes.iter().map(|v| v.iter().map(|m| alloc::mode_name(*m)).collect::<Vec<_>>()).collect::<Vec<_>>(),
        "handoff": s.handoff,
        "policy": {"seed": s.policy_seed, "random_mean": s.mean, "change_points": s.change_points},
        "schedule": schedule.iter().map(|w| json!([w.at, w.from, w.to])).collect::<Vec<_>>(),
    })
}

fn threads_spec_from_json(v: &Value, use_schedule: bool) -> ThreadsSpec {
    let work: Vec<Vec<String>> = v["work"]
        .as_array()
        .map(|a| a.iter().map(|t| t.as_array().map(|p| p.iter().map(|s| s.as_str().unwrap_or("").to_string()).collect()).unwrap_or_default()).collect())
        .unwrap_or_default();
    let modes: Vec<Vec<u8>> = work
        .iter()
        .enumerate()
        .map(|(ti, w)| (0..w.len()).map(|pi| alloc::mode_from_name(v["alloc_modes"][ti][pi].as_str().unwrap_or("plain"))).collect())
        .collect();
    let handoff: Vec<Vec<bool>> = work
        .iter()
        .enumerate()
        .map(|(ti, w)| (0..w.len()).map(|pi| v["handoff"][ti][pi].as_bool().unwrap_or(false)).collect())
        .collect();
    let schedule = if use_schedule {
        v["schedule"].as_array().map(|a| {
            a.iter()
                .map(|w| Switch { at: w[0].as_u64().unwrap_or(0), from: w[1].as_u64().unwrap_or(0) as usize, to: w[2].as_u64().unwrap_or(0) as usize })
                .collect()
        })
    } else {
        None
    };
    ThreadsSpec {
        work,
        modes,
        handoff,
        policy_seed: v["policy"]["seed"].as_u64().unwrap_or(0),
        mean: v["policy"]["random_mean"].as_u64().unwrap_or(16),
        change_points: v["policy"]["change_points"].as_array().map(|a| a.iter().filter_map(|x| x.as_u64()).collect()),
        schedule,
    }
}

const THREAD_CLASSES: &[&str] = &[
    "foreign-access",
    "foreign-release",
    "use-after-release",
    "double-release",
    "release-unknown",
    "access-unknown",
    "result-invalid",
];

fn scenario_threads(acc: &mut Acc, seed: u64, index: u64, tier: Tier, rng: &mut Rng) -> u64 {
    let b = batch(seed, tier);
    let r = refs(seed, tier);
    let t = match rng.below(4) {
        0 => 2,
        1 => 16,
        _ => 2 + rng.usize(15),
    };
    let mut idx: Vec<Vec<usize>> = Vec::new();
    for _ in 0..t {
        let n = 2 + rng.usize(7);
        idx.push((0..n).map(|_| rng.usize(b.len())).collect());
    }
    // a storm: every thread evaluates one and the same program, several times (half of the storms
    // take a program that renders nested values)
    let storm = rng.chance(1, 8);
    if storm {
        let renders: Vec<usize> = (0..b.len()).filter(|i| (i % 5 == 4 || (i % 5 == 3 && i / 5 < PROBES2.len())) && b.get(*i).contains("print(")).collect();
        let p = if !renders.is_empty() && rng.chance(1, 2) { *rng.pick(&renders) } else { rng.usize(b.len()) };
        let reps = 2 + rng.usize(3);
        for w in idx.iter_mut() {
            *w = vec![p; reps];
        }
    }
    // sometimes all threads evaluate the very same program at the same time
    if !storm && rng.chance(1, 6) {
        let p = rng.usize(b.len());
        for w in idx.iter_mut() {
            w[0] = p;
        }
    }
    let work: Vec<Vec<String>> = idx.iter().map(|w| w.iter().map(|i| b.get(*i)).collect()).collect();
    let modes: Vec<Vec<u8>> = idx.iter().map(|w| w.iter().map(|_| mode_for(rng)).collect()).collect();
    let handoff: Vec<Vec<bool>> = idx.iter().map(|w| w.iter().map(|_| rng.chance(1, 2)).collect()).collect();
    let mean = if storm { 2 + rng.below(12) } else { 1u64 << (1 + rng.below(8)) };
    let change_points = if !storm && rng.chance(1, 4) {
        let d = 1 + rng.below(6);
        let mut p: Vec<u64> = (0..d).map(|_| rng.below(4000)).collect();
        p.sort();
        p.dedup();
        Some(p)
    } else {
        None
    };
    let spec = ThreadsSpec {
        work,
        modes,
        handoff,
        policy_seed: rng.next_u64(),
        mean,
        change_points,
        schedule: None,
    };
    acc.begin(&threads_spec_json(&spec, &[]));
    let run = run_threads(&spec);
    acc.count("thread_runs", 1);
    acc.count("sim_threads", t as u64);
    acc.max("max_sim_threads", t as u64);
    acc.count("evaluations_in_thread_runs", run.records.len() as u64);
    acc.count("fault_preemption", run.schedule.len() as u64);
    acc.count("scheduling_points", run.points);
    let mut f = Fold::new();
    for s in &run.schedule {
        f.u64(s.from as u64 * 64 + s.to as u64);
    }
    acc.distinct("schedule_hashes", f.0);
    if run.schedule.len() > 1 {
        acc.distinct("nontrivial_cases", run.log);
    }
    for rec in &run.records {
        acc.count("sim_steps", rec.steps);
        if rec.switches > 0 {
            acc.count("probe_evaluation_preempted_midway", 1);
        }
        if rec.settled_by != rec.tid {
            acc.count("probe_result_digested_and_released_on_another_thread", 1);
        }
        let bi = idx[rec.tid][rec.pos];
        let mut bad: Option<(String, String, String)> = None;
        for fnd in &rec.findings {
            if THREAD_CLASSES.contains(&fnd.class.as_str()) {
                bad = Some((fnd.class.clone(), fnd.key.clone(), fnd.detail.clone()));
                break;
            }
        }
        if bad.is_none() && r[bi] != DISCARD && rec.digest != DISCARD {
            acc.count("comparisons_threads", 1);
            if rec.digest != r[bi] {
                bad = Some((
                    "schedule-dependence".into(),
                    format!("{}->{}", kind_of_digest(&r[bi]), kind_of_digest(&rec.digest)),
                    format!(
                        "program {} of the batch gives {} in a fresh process but {} when evaluated on sim-thread {} (position {}) while {} other threads run",
                        bi, r[bi], rec.digest, rec.tid, rec.pos, t - 1
                    ),
                ));
            }
        }
        if let Some((class, key, detail)) = bad {
            let mut sp = threads_spec_json(&spec, &run.schedule);
            sp["target"] = json!([rec.tid, rec.pos]);
            sp["expect"] = json!({"class": class, "key": key});
            acc.violation(Violation {
                property: PROPERTY.into(),
                class,
                key,
                detail,
                spec: sp,
                seed,
                index,
            });
            break;
        }
    }
    if index % 16 == 1 {
        acc.sample(json!({"sim_threads": t, "work": idx, "policy": {"random_mean": mean, "change_points": spec.change_points}, "switches": run.schedule.len(), "first_switches": run.schedule.iter().take(12).map(|w| json!([w.at, w.from, w.to])).collect::<Vec<_>>()}));
    }
    run.log
}

pub fn scenario(acc: &mut Acc, seed: u64, index: u64, tier: Tier) {
    let s = mix(seed, TAG ^ 0x5555, index);
    let mut rng = Rng::new(s);
    let h = if index % 2 == 0 {
        scenario_history(acc, seed, index, tier, &mut rng)
    } else {
        scenario_threads(acc, seed, index, tier, &mut rng)
    };
    acc.log(index, h);
}

// ---------------------------------------------------------------------------------------------
// fresh-process evaluation of a single program (the reference of every comparison)

pub fn fresh_digest(src: &str) -> Result<String, String> {
    fresh_digest_with(&std::env::current_exe().map_err(|e| e.to_string())?, src)
}

pub fn fresh_digest_with(exe: &std::path::Path, src: &str) -> Result<String, String> {
    use std::io::Write;
    let mut child = std::process::Command::new(exe)
        .arg("fresh")
        .stdin(std::process::Stdio::piped())
        .stdout(std::process::Stdio::piped())
        .stderr(std::process::Stdio::null())
        .spawn()
        .map_err(|e| e.to_string())?;
    child.stdin.take().unwrap().write_all(src.as_bytes()).map_err(|e| e.to_string())?;
    let out = child.wait_with_output().map_err(|e| e.to_string())?;
    let text = String::from_utf8_lossy(&out.stdout).to_string();
    for l in text.lines() {
        if let Ok(v) = serde_json::from_str::<Value>(l) {
            if let Some(d) = v["digest"].as_str() {
                return Ok(d.to_string());
            }
        }
    }
    Ok(format!("process-died {}", out.status))
}

/// `nlsim fresh`: program on stdin, digest on stdout
pub fn fresh_main() -> i32 {
    use std::io::Read;
    let mut src = String::new();
    let _ = std::io::stdin().read_to_string(&mut src);
    let d = plain_digest(&src);
    println!("{}", json!({"digest": d}));
    0
}

/// `nlsim digests <seed> <tier> <offset> <stride>`: digests of a slice of the batch, one process
pub fn digests_main(seed: u64, tier: Tier, offset: usize, stride: usize) -> i32 {
    let b = batch(seed, tier);
    let mut i = offset;
    while i < b.len() {
        let d = plain_digest(&b.get(i));
        println!("{}", json!({"index": i, "digest": d}));
        i += stride;
    }
    0
}

pub fn dev_exe() -> std::path::PathBuf {
    let me = std::env::current_exe().unwrap_or_default();
    // .../target/release/nlsim -> .../target/debug/nlsim
    let target = me.parent().and_then(|p| p.parent()).map(|p| p.to_path_buf()).unwrap_or_default();
    target.join("debug").join("nlsim")
}

/// Programs known to differ between builds today (DESIGN.md 4.3 items 4, 5): exercised so that they
/// are reported, each under its own key.
pub const DIVERGENCE_PROBES: &[&str] = &[
    "1152921504606846975 + 1",
    "stel a = 1152921504606846975; a * 2",
    "stel m = 0 - 1152921504606846975; (m - 1) - 5",
    "stel b = 3037000500; b * b * 2",
    "1 + 2 * 3 - 4 / 2 % 3",
    "stel f = 0.1 + 0.2; [f, f * 3.0, 1.0 / 3.0, float(7) / 0.0, -f]",
    "functie fac(n) { als n < 2 { antwoord 1; }; n * fac(n - 1) }; fac(20)",
];

// ---------------------------------------------------------------------------------------------
// replay + minimisation

pub fn replay(sp: &Value, _trace: bool) -> Vec<Finding> {
    let mut out = Vec::new();
    match sp["mode"].as_str() {
        Some("history") => {
            let programs: Vec<String> = sp["programs"].as_array().map(|a| a.iter().map(|s| s.as_str().unwrap_or("").to_string()).collect()).unwrap_or_default();
            let modes: Vec<u8> = (0..programs.len()).map(|i| alloc::mode_from_name(sp["alloc_modes"][i].as_str().unwrap_or("plain"))).collect();
            let target = sp["target"].as_u64().unwrap_or(0) as usize;
            if target >= programs.len() {
                return out;
            }
            let fresh = match fresh_digest(&programs[target]) {
                Ok(d) => d,
                Err(_) => return out,
            };
            let h = run_history(&programs, &modes);
            if h.digests[target] != fresh && fresh != DISCARD && h.digests[target] != DISCARD {
                out.push(Finding {
                    class: "history-dependence".into(),
                    key: format!("{}->{}", kind_of_digest(&fresh), kind_of_digest(&h.digests[target])),
                    detail: format!("fresh process: {} ; as evaluation {} of the history: {}", fresh, target, h.digests[target]),
                });
            }
        }
        Some("threads") => {
            let spec = threads_spec_from_json(sp, true);
            let run = run_threads(&spec);
            let (tt, tp) = (sp["target"][0].as_u64().unwrap_or(0) as usize, sp["target"][1].as_u64().unwrap_or(0) as usize);
            for rec in &run.records {
                for f in &rec.findings {
                    if THREAD_CLASSES.contains(&f.class.as_str()) {
                        out.push(f.clone());
                    }
                }
                if rec.tid == tt && rec.pos == tp {
                    if let Ok(fresh) = fresh_digest(&spec.work[tt][tp]) {
                        if fresh != rec.digest && fresh != DISCARD && rec.digest != DISCARD {
                            out.push(Finding {
                                class: "schedule-dependence".into(),
                                key: format!("{}->{}", kind_of_digest(&fresh), kind_of_digest(&rec.digest)),
                                detail: format!("fresh process: {} ; on sim-thread {} position {}: {}", fresh, tt, tp, rec.digest),
                            });
                        }
                    }
                }
            }
        }
        Some("build") => {
            let src = sp["program"].as_str().unwrap_or("");
            let rel = fresh_digest(src).unwrap_or_else(|e| format!("? {}", e));
            let dev = fresh_digest_with(&dev_exe(), src).unwrap_or_else(|e| format!("? {}", e));
            if rel != dev && rel != DISCARD && dev != DISCARD {
                out.push(Finding {
                    class: "build-divergence".into(),
                    key: format!("dev:{}|release:{}", kind_of_digest(&dev), kind_of_digest(&rel)),
                    detail: format!("optimised build: {} ; build without optimisation, with debug assertions and overflow checks: {}", rel, dev),
                });
            }
        }
        _ => {}
    }
    out
}

pub fn build_violation(src: &str, rel: &str, dev: &str, seed: u64, index: u64) -> Violation {
    let key = format!("dev:{}|release:{}", kind_of_digest(dev), kind_of_digest(rel));
    Violation {
        property: PROPERTY.into(),
        class: "build-divergence".into(),
        key: key.clone(),
        detail: format!("optimised build: {} ; build without optimisation, with debug assertions and overflow checks: {}", rel, dev),
        spec: json!({"engine": "purity-sim", "kind": "purity", "mode": "build", "program": src, "expect": {"class": "build-divergence", "key": key}}),
        seed,
        index,
    }
}

pub fn shrink(sp: &Value, class: &str, key: &str) -> Value {
    // every candidate is judged in a process of its own: the code under test may (that is the
    // violation) keep state from one evaluation to the next, which would pollute in-process retries
    let tmp = crate::orch::verif_dir().join("replays").join(format!(".shrink-{}.tmp", std::process::id()));
    let same = |c: &Value| {
        let body = json!({"property": PROPERTY, "class": class, "key": key, "spec": c});
        if std::fs::write(&tmp, serde_json::to_string(&body).unwrap()).is_err() {
            return false;
        }
        matches!(crate::orch::confirm_replay(&tmp), Ok(true))
    };
    let out = shrink_with(sp, &same);
    let _ = std::fs::remove_file(&tmp);
    out
}

fn shrink_with(sp: &Value, same: &dyn Fn(&Value) -> bool) -> Value {
    match sp["mode"].as_str() {
        Some("history") => {
            // drop evaluations before the target
            let mut cur = sp.clone();
            let mut i = 0;
            let mut tries = 0;
            while tries < 200 {
                let n = cur["programs"].as_array().map(|a| a.len()).unwrap_or(0);
                let target = cur["target"].as_u64().unwrap_or(0) as usize;
                if i >= target || n <= 1 {
                    break;
                }
                tries += 1;
                let mut c = cur.clone();
                c["programs"].as_array_mut().unwrap().remove(i);
                c["alloc_modes"].as_array_mut().unwrap().remove(i);
                c["target"] = json!(target - 1);
                if same(&c) {
                    cur = c;
                } else {
                    i += 1;
                }
            }
            cur
        }
        Some("threads") => {
            // fewer programs per thread (from the end), re-recording the schedule from the policy
            let mut cur = sp.clone();
            let t = cur["work"].as_array().map(|a| a.len()).unwrap_or(0);
            let (tt, tp) = (sp["target"][0].as_u64().unwrap_or(0) as usize, sp["target"][1].as_u64().unwrap_or(0) as usize);
            let rerecord = |c: &Value| -> Option<Value> {
                let spec = threads_spec_from_json(c, false);
                let run = run_threads(&spec);
                let mut c2 = threads_spec_json(&spec, &run.schedule);
                c2["target"] = c["target"].clone();
                c2["expect"] = c["expect"].clone();
                if same(&c2) {
                    Some(c2)
                } else {
                    None
                }
            };
            let mut tries = 0;
            for ti in 0..t {
                loop {
                    tries += 1;
                    if tries > 120 {
                        return cur;
                    }
                    let n = cur["work"][ti].as_array().map(|a| a.len()).unwrap_or(0);
                    let keep = if ti == tt { tp + 1 } else { 1 };
                    if n <= keep {
                        break;
                    }
                    let mut c = cur.clone();
                    c["work"][ti].as_array_mut().unwrap().pop();
                    c["alloc_modes"][ti].as_array_mut().unwrap().pop();
                    c["handoff"][ti].as_array_mut().unwrap().pop();
                    match rerecord(&c) {
                        Some(c2) => cur = c2,
                        None => break,
                    }
                }
            }
            cur
        }
        _ => sp.clone(),
    }
}
