//! crash-sim (C04): every abort point of every generated run, heap ledger audited after each.

use crate::acc::{Acc, Tier, Violation};
use crate::alloc;
use crate::gen_program;
use crate::rng::{mix, Fold, Rng};
use crate::runner::{self, Plan, RunResult};
use crate::sim::{CollectPlan, Injected};
use crate::spec;
use serde_json::json;

pub const TAG: u64 = 0xC04;
pub const PROPERTY: &str = "C04";
/// generated programs whose fault-free run is longer than this are discarded (counted)
pub const REFERENCE_BUDGET: u64 = 6_000;

pub const CLASSES: &[&str] = &[
    "leak",
    "unreachable-retained",
    "double-release",
    "release-unknown",
    "result-invalid",
    "result-unreleasable",
    "managed-list-corrupt",
    "allocator-ledger-growth",
    "progress",
    "crash-path-differs",
];

pub fn scenarios(tier: Tier) -> u64 {
    match tier {
        Tier::Quick => 1_600,
        Tier::Thorough => 60_000,
    }
}

pub fn report(acc: &mut Acc, classes: &[&str], property: &str, engine: &str, src: &str, plan: &Plan, res: &RunResult, seed: u64, index: u64) -> bool {
    let mut any = false;
    for f in &res.findings {
        if f.class.starts_with("harness:") {
            acc.count("harness_findings", 1);
            continue;
        }
        if classes.contains(&f.class.as_str()) {
            let mut sp = spec::eval_spec(engine, src, plan);
            sp["expect"] = json!({"class": f.class, "key": f.key});
            acc.violation(Violation {
                property: property.to_string(),
                class: f.class.clone(),
                key: f.key.clone(),
                detail: f.detail.clone(),
                spec: sp,
                seed,
                index,
            });
            any = true;
        } else {
            acc.count(&format!("other_property_findings:{}", f.class), 1);
        }
    }
    any
}

fn fault_plan(crash_at: Option<u64>, collect: CollectPlan, budget: u64) -> Plan {
    let mut p = Plan::plain();
    p.crash_at = crash_at;
    p.collect = collect;
    p.budget = budget;
    p.exact = true;
    // a violation of another property (e.g. a reachable object reclaimed: C03) must not cut the run
    // short: C04's own oracles (is the result valid? released once?) need the run to finish
    p.stop_on_finding = false;
    p
}

pub fn scenario(acc: &mut Acc, seed: u64, index: u64, tier: Tier) {
    let s = mix(seed, TAG, index);
    let mut rng = Rng::new(s);
    let fail_pct = if rng.chance(1, 3) { 60 } else { 0 };
    let directed = crate::directed::all();
    let prog = gen_program::generate(rng.next_u64(), true, fail_pct);
    let src = if (index as usize) < directed.len() {
        acc.count("directed_programs", 1);
        directed[index as usize].1.as_str()
    } else {
        prog.src.as_str()
    };
    acc.count("programs", 1);

    // fault-free reference run (shipped schedule), full ledger audit
    // (the few very long directed texts get a budget proportional to their length)
    let plan0 = fault_plan(None, CollectPlan::Shipped, REFERENCE_BUDGET.max(src.len() as u64));
    acc.begin(&spec::eval_spec("crash-sim", src, &plan0));
    let r0 = runner::run_eval(src, &plan0, 1, true);
    acc.count("runs", 1);
    acc.count("sim_steps", r0.steps);
    acc.count("collections", r0.stats.collections);
    acc.count("freed_by_collections", r0.stats.freed_by_collections);
    let mut lf = Fold::new();
    lf.u64(r0.log_hash);
    if std::env::var("NLSIM_DEBUG_HASH").is_ok() { eprintln!("idx={} r0 h={:x} {}", index, r0.log_hash, r0.digest()); }
    if r0.injected == Injected::Budget {
        acc.count("discarded_over_budget", 1);
        acc.log(index, lf.0);
        return;
    }
    if let Injected::Guard(g) = &r0.injected {
        acc.count(&format!("guard:{}", g), 1);
    }
    acc.count(&format!("reference_outcome:{}", r0.outcome.kind()), 1);
    if prog.planted.is_some() {
        acc.count("fault_natural_failure_planted", 1);
    }
    if !r0.outcome.is_ok() {
        acc.count("fault_natural_failure_fired", 1);
    }
    if r0.stats.allocs > 0 {
        acc.count("programs_allocating", 1);
    }
    if r0.result_objects > 0 {
        acc.count("probe_result_with_heap_objects", 1);
    }
    report(acc, CLASSES, PROPERTY, "crash-sim", src, &plan0, &r0, seed, index);
    acc.sample(json!({"program": src, "steps": r0.steps, "outcome": r0.outcome.render(), "crash_points": r0.steps}));

    let n = r0.steps;
    let budget = 4 * n + 1000;
    // crash points: all of them up to 400 steps, else first 64, last 64 and 128 seeded ones
    let ks: Vec<u64> = if n <= 400 || tier == Tier::Thorough && n <= 1500 {
        (0..n).collect()
    } else {
        acc.count("programs_sampled_crash_points", 1);
        let mut v: Vec<u64> = (0..64).chain(n - 64..n).collect();
        for _ in 0..128 {
            v.push(64 + rng.below(n - 128));
        }
        v.sort();
        v.dedup();
        v
    };
    // one buggified collection schedule per program
    let buggy = if n <= 300 && rng.chance(1, 2) {
        CollectPlan::Every
    } else {
        let m = 1 + rng.below(4);
        let mut pts: Vec<u64> = (0..m).map(|_| rng.below(n.max(1))).collect();
        pts.sort();
        pts.dedup();
        CollectPlan::Points(pts)
    };
    // the buggified schedule without a crash must give the same outcome and a clean ledger
    {
        let plan = fault_plan(None, buggy.clone(), budget);
        acc.begin(&spec::eval_spec("crash-sim", src, &plan));
        let r = runner::run_eval(src, &plan, 1, true);
        acc.count("runs", 1);
        acc.count("sim_steps", r.steps);
        acc.count("fault_extra_collection", r.stats.extra_collections);
        lf.u64(r.log_hash);
        if std::env::var("NLSIM_DEBUG_HASH").is_ok() { eprintln!("buggy h={:x} {}", r.log_hash, r.digest()); }
        report(acc, CLASSES, PROPERTY, "crash-sim", src, &plan, &r, seed, index);
        if r.injected == Injected::Budget {
            progress_violation(acc, src, &plan, seed, index, n);
        }
    }
    for (si, sched) in [CollectPlan::Shipped, buggy].into_iter().enumerate() {
        for &k in &ks {
            let plan = fault_plan(Some(k), sched.clone(), budget);
            acc.begin(&spec::eval_spec("crash-sim", src, &plan));
            let r = runner::run_eval(src, &plan, 1, true);
            acc.count("runs", 1);
            acc.count("sim_steps", r.steps);
            lf.u64(r.log_hash);
            if std::env::var("NLSIM_DEBUG_HASH").is_ok() { eprintln!("k={} si={} h={:x} {}", k, si, r.log_hash, r.digest()); }
            if si == 1 {
                acc.count("fault_extra_collection", r.stats.extra_collections);
            }
            match &r.injected {
                Injected::Crash => {
                    acc.count("fault_crash_fired", 1);
                    if let Some(cs) = &r.crash_state {
                        let mut f = Fold::new();
                        f.u64(cs.opcode as u64);
                        f.u64(cs.frames.min(6) as u64);
                        f.u64(bucket(cs.stack) as u64);
                        f.u64(bucket(cs.live) as u64);
                        f.u64((cs.collections > 0) as u64);
                        acc.distinct("crash_states", f.0);
                        if cs.live_runtime > 0 {
                            let mut g = Fold::new();
                            g.str(src);
                            g.u64(k);
                            g.u64(si as u64);
                            acc.distinct("nontrivial_cases", g.0);
                        }
                        if cs.frames >= 3 {
                            acc.count("probe_crash_with_3_frames", 1);
                        }
                        if cs.stack >= 2 {
                            acc.count("probe_crash_with_2_pending_operands", 1);
                        }
                        if cs.live_runtime >= 3 {
                            acc.count("probe_crash_with_3_live_objects", 1);
                        }
                        if cs.collections > 0 && cs.live_runtime > 0 {
                            acc.count("probe_crash_after_collection_with_live_heap", 1);
                        }
                    }
                    // the exit path of an injected failure is the exit path of a run-time error
                    let ok = matches!(&r.outcome, runner::Outcome::Err(k, m) if k == "TypeError" && m == nederlang::verif::INJECTED_FAILURE);
                    if !ok {
                        let mut sp = spec::eval_spec("crash-sim", src, &plan);
                        sp["expect"] = json!({"class": "crash-path-differs", "key": r.outcome.kind()});
                        acc.violation(Violation {
                            property: PROPERTY.into(),
                            class: "crash-path-differs".into(),
                            key: r.outcome.kind(),
                            detail: format!("run cut short at step {} did not end with the injected error but with: {}", k, r.outcome.render()),
                            spec: sp,
                            seed,
                            index,
                        });
                    }
                }
                Injected::Budget => progress_violation(acc, src, &plan, seed, index, n),
                Injected::None => acc.count("crash_point_not_reached", 1),
                Injected::Guard(g) => acc.count(&format!("guard:{}", g), 1),
                Injected::Stop => acc.count("runs_stopped_by_finding", 1),
                Injected::CompileCrash => {}
            }
            report(acc, CLASSES, PROPERTY, "crash-sim", src, &plan, &r, seed, index);
        }
    }

    // compile-time abort points: the compilation is cut short at its k-th step (statement or
    // expression, any depth) for every k - the exit path a compile-time error takes. Nothing was run;
    // every literal the compiler had made by then must have been released.
    {
        let c = r0.compile_steps;
        let cks: Vec<u64> = if c <= 600 || tier == Tier::Thorough {
            (0..c).collect()
        } else {
            acc.count("programs_sampled_compile_crash_points", 1);
            let mut v: Vec<u64> = (0..100).chain(c - 100..c).collect();
            for _ in 0..200 {
                v.push(100 + rng.below(c - 200));
            }
            v.sort();
            v.dedup();
            v
        };
        for &k in &cks {
            let mut plan = fault_plan(None, CollectPlan::Shipped, budget);
            plan.compile_crash_at = Some(k);
            acc.begin(&spec::eval_spec("crash-sim", src, &plan));
            let r = runner::run_eval(src, &plan, 1, true);
            acc.count("runs", 1);
            lf.u64(r.log_hash);
            if r.injected == Injected::CompileCrash {
                acc.count("fault_compile_crash_fired", 1);
                if r.stats.allocs > 0 {
                    acc.count("probe_compile_crash_with_literals_allocated", 1);
                    let mut g = Fold::new();
                    g.str(src);
                    g.u64(k);
                    g.u64(0xC0);
                    acc.distinct("nontrivial_cases", g.0);
                }
                let ok = r.steps == 0 && matches!(&r.outcome, runner::Outcome::Err(k, m) if k == "TypeError" && m == nederlang::verif::INJECTED_FAILURE);
                if !ok {
                    let mut sp = spec::eval_spec("crash-sim", src, &plan);
                    sp["expect"] = json!({"class": "crash-path-differs", "key": format!("compile:{}", r.outcome.kind())});
                    acc.violation(Violation {
                        property: PROPERTY.into(),
                        class: "crash-path-differs".into(),
                        key: format!("compile:{}", r.outcome.kind()),
                        detail: format!("compilation cut short at step {} did not end with the injected error before anything ran, but with: {} ({} instructions executed)", k, r.outcome.render(), r.steps),
                        spec: sp,
                        seed,
                        index,
                    });
                }
            } else {
                acc.count("compile_crash_point_not_reached", 1);
            }
            report(acc, CLASSES, PROPERTY, "crash-sim", src, &plan, &r, seed, index);
        }
    }

    // allocator-counter cross-check (no interpreter hooks involved in the ledger): the same
    // evaluation, result released, three times; the third must not grow the live block count.
    {
        let plan = fault_plan(None, CollectPlan::Shipped, 200_000);
        let _ = runner::run_eval(src, &plan, 1, true);
        let _ = runner::run_eval(src, &plan, 1, true);
        let b2 = alloc::live_blocks();
        let _ = runner::run_eval(src, &plan, 1, true);
        let b3 = alloc::live_blocks();
        acc.count("runs", 3);
        acc.count("allocator_ledger_checks", 1);
        if b3 > b2 {
            let mut sp = spec::eval_spec("crash-sim", src, &plan);
            sp["expect"] = json!({"class": "allocator-ledger-growth", "key": "blocks"});
            acc.violation(Violation {
                property: PROPERTY.into(),
                class: "allocator-ledger-growth".into(),
                key: "blocks".into(),
                detail: format!("live allocator blocks grow by {} per evaluation of the same program (result released)", b3 - b2),
                spec: sp,
                seed,
                index,
            });
        }
    }
    acc.log(index, lf.0);
}

fn progress_violation(acc: &mut Acc, src: &str, plan: &Plan, seed: u64, index: u64, n: u64) {
    let mut sp = spec::eval_spec("crash-sim", src, plan);
    sp["expect"] = json!({"class": "progress", "key": "budget"});
    acc.violation(Violation {
        property: PROPERTY.into(),
        class: "progress".into(),
        key: "budget".into(),
        detail: format!("a faulted run did not finish within 4 x {} + 1000 steps", n),
        spec: sp,
        seed,
        index,
    });
}

pub fn bucket(n: usize) -> usize {
    match n {
        0 => 0,
        1 => 1,
        2..=3 => 2,
        4..=7 => 3,
        8..=15 => 4,
        _ => 5,
    }
}
