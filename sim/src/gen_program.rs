//! Seeded, type-directed generator of closed nederlang programs whose behaviour is defined and
//! deterministic (DESIGN.md section 4.1 / 4.3). All identifiers are unique inside a program and
//! come from one small pool shared by all programs (v0, v1, ..., f0, ..., p0, ...).

use crate::rng::Rng;

#[derive(Clone, Debug, PartialEq)]
pub enum Ty {
    Int,
    Float,
    Bool,
    Str,
    /// array with statically known element kind and length
    Arr(Box<Ty>, usize),
    /// array of anything (may become cyclic); length known
    AnyArr(usize),
    Fun(Vec<Ty>, Box<Ty>),
    /// "no value": what a function whose body ends in a declaration (or is empty) returns
    Null,
}

impl Ty {
    fn is_heap(&self) -> bool {
        !matches!(self, Ty::Int | Ty::Bool | Ty::Fun(_, _))
    }
}

#[derive(Clone, Debug)]
pub struct Var {
    pub name: String,
    pub ty: Ty,
    /// for strings: a lower bound on the number of characters, and whether all characters are ASCII
    pub min_len: usize,
    pub global_top: bool,
    /// loop counters and the like must not be assigned by generated statements
    pub frozen: bool,
}

#[derive(Clone, Debug)]
pub struct Swarm {
    pub stmts: usize,
    pub max_depth: usize,
    pub w_int: u32,
    pub w_float: u32,
    pub w_bool: u32,
    pub w_str: u32,
    pub w_arr: u32,
    pub w_anyarr: u32,
    pub w_decl: u32,
    pub w_assign: u32,
    pub w_opassign: u32,
    pub w_elem: u32,
    pub w_strelem: u32,
    pub w_print: u32,
    pub w_if: u32,
    pub w_while: u32,
    pub w_block: u32,
    pub w_fun: u32,
    pub w_call: u32,
    pub w_cycle: u32,
    pub w_expr: u32,
    pub loop_max: u32,
    pub fail_pct: u32,
    pub multibyte: bool,
    pub epilogue: bool,
    /// chance (percent) that a declaration in a nested scope re-uses the name of an outer variable
    pub shadow_pct: u32,
}

impl Swarm {
    pub fn draw(rng: &mut Rng, heap_heavy: bool) -> Swarm {
        let mut w = |lo: u32, hi: u32| lo + rng.below((hi - lo + 1) as u64) as u32;
        let on = |w: u32, p: u32, r: u32| if r < p { w } else { 0 };
        let mut s = Swarm {
            stmts: 0,
            max_depth: 0,
            w_int: w(1, 6),
            w_float: w(0, 6),
            w_bool: w(0, 3),
            w_str: w(0, 6),
            w_arr: w(0, 6),
            w_anyarr: w(0, 5),
            w_decl: w(3, 8),
            w_assign: w(1, 6),
            w_opassign: w(0, 3),
            w_elem: w(0, 5),
            w_strelem: w(0, 3),
            w_print: w(0, 3),
            w_if: w(0, 5),
            w_while: w(0, 4),
            w_block: w(0, 2),
            w_fun: w(1, 6),
            w_call: w(1, 8),
            w_cycle: w(0, 3),
            w_expr: w(0, 3),
            loop_max: w(1, 6),
            fail_pct: 0,
            multibyte: false,
            epilogue: true,
            shadow_pct: 0,
        };
        s.stmts = w(4, 40) as usize;
        s.max_depth = w(1, 4) as usize;
        // swarm: switch whole features off in some runs
        let r: Vec<u32> = (0..8).map(|_| w(0, 99)).collect();
        s.w_float = on(s.w_float, 80, r[0]);
        s.w_str = on(s.w_str, 85, r[1]);
        s.w_arr = on(s.w_arr, 85, r[2]);
        s.w_anyarr = on(s.w_anyarr, 70, r[3]);
        s.w_while = on(s.w_while, 75, r[4]);
        s.w_cycle = on(s.w_cycle, 60, r[5]);
        s.multibyte = r[6] < 40;
        s.shadow_pct = if r[7] < 60 { 25 } else { 0 };
        if heap_heavy {
            s.w_str += 3;
            s.w_arr += 3;
            s.w_anyarr += 2;
            s.w_float += 2;
            s.w_fun += 2;
            s.w_call += 3;
        }
        s
    }
}

#[derive(Clone, Debug)]
pub struct Program {
    pub src: String,
    pub planted: Option<String>,
    pub stmts: usize,
}

struct Scope {
    vars: Vec<Var>,
}

struct FnCtx {
    /// return type of the function being generated
    ret: Ty,
}

pub struct Gen<'a> {
    pub rng: &'a mut Rng,
    pub cfg: Swarm,
    scopes: Vec<Scope>,
    /// index into `scopes` where the current function's own scopes start (0 = not in a function)
    fn_base: Vec<usize>,
    fn_ctx: Vec<FnCtx>,
    loop_depth: usize,
    lexical_loops: usize,
    next_var: usize,
    next_fun: usize,
    next_par: usize,
    pub planted: Option<String>,
    plant_at: Option<usize>,
    stmt_counter: usize,
    budget: isize,
    /// functions may read but never write variables that are not their own (session lines)
    pub no_global_writes: bool,
    pub shadowed: usize,
    /// names whose scope has ended (and that are not visible any more)
    dead_names: Vec<String>,
}

const STRS_ASCII: &[&str] = &["", "a", "abc", "hallo wereld", "x{}y", "{}", "nl", "0", "12", "a\\nb", "Z z"];
const STRS_MULTI: &[&str] = &["é", "日本語", "😀x", "naïve", "ß∂ƒ", "añb😀"];

impl<'a> Gen<'a> {
    pub fn new(rng: &'a mut Rng, cfg: Swarm) -> Gen<'a> {
        Gen {
            rng,
            cfg,
            scopes: vec![Scope { vars: Vec::new() }],
            fn_base: Vec::new(),
            fn_ctx: Vec::new(),
            loop_depth: 0,
            lexical_loops: 0,
            next_var: 0,
            next_fun: 0,
            next_par: 0,
            planted: None,
            plant_at: None,
            stmt_counter: 0,
            budget: 0,
            no_global_writes: false,
            shadowed: 0,
            dead_names: Vec::new(),
        }
    }

    // ---- environment -------------------------------------------------------------------------

    fn in_function(&self) -> bool {
        !self.fn_base.is_empty()
    }

    fn visible(&self) -> Vec<&Var> {
        // innermost scope first; a name declared again in an inner scope hides the outer one
        let mut v: Vec<&Var> = Vec::new();
        let mut seen: Vec<&str> = Vec::new();
        match self.fn_base.last() {
            None => {
                for s in self.scopes.iter().rev() {
                    for x in s.vars.iter().rev() {
                        if !seen.contains(&x.name.as_str()) {
                            seen.push(x.name.as_str());
                            v.push(x);
                        }
                    }
                }
            }
            Some(base) => {
                for s in self.scopes[*base..].iter().rev() {
                    for x in s.vars.iter().rev() {
                        if !seen.contains(&x.name.as_str()) {
                            seen.push(x.name.as_str());
                            v.push(x);
                        }
                    }
                }
                // top-level globals (scope 0 only)
                for x in self.scopes[0].vars.iter().rev() {
                    if x.global_top && !seen.contains(&x.name.as_str()) {
                        seen.push(x.name.as_str());
                        v.push(x);
                    }
                }
            }
        }
        v
    }

    fn vars_where<F: Fn(&Var) -> bool>(&self, f: F) -> Vec<Var> {
        self.visible().into_iter().filter(|v| f(v)).cloned().collect()
    }

    /// variables a generated statement may assign to / mutate in place
    fn writable<F: Fn(&Var) -> bool>(&self, f: F) -> Vec<Var> {
        let restrict = self.no_global_writes && self.in_function();
        self.visible()
            .into_iter()
            .filter(|v| f(v) && !(restrict && v.global_top))
            .cloned()
            .collect()
    }

    /// Declares a variable whose initialiser is `init`. In a nested scope the name of a visible
    /// outer variable may be used again (shadowing), unless the initialiser mentions that name
    /// (a variable must not be read inside its own initialiser).
    fn declare_init(&mut self, ty: Ty, min_len: usize, init: &str) -> String {
        let nested = match self.fn_base.last() {
            None => self.scopes.len() > 1,
            Some(b) => self.scopes.len() > *b,
        };
        let in_global_context = self.fn_base.is_empty();
        if nested && self.cfg.shadow_pct > 0 && self.rng.below(100) < self.cfg.shadow_pct as u64 {
            let inner: Vec<String> = self.scopes.last().unwrap().vars.iter().map(|v| v.name.clone()).collect();
            let cands: Vec<String> = self
                .visible()
                .into_iter()
                // outside functions a top-level global is never shadowed: a function defined inside
                // the shadowing block would resolve the name to the inner variable
                .filter(|v| !matches!(v.ty, Ty::Fun(_, _)) && !v.frozen && !inner.contains(&v.name) && v.name.starts_with('v') && !(in_global_context && v.global_top))
                .map(|v| v.name.clone())
                .collect();
            if !cands.is_empty() {
                let name = self.rng.pick(&cands).clone();
                let mentions = init
                    .split(|c: char| !(c.is_alphanumeric() || c == '_'))
                    .any(|t| t == name);
                if !mentions {
                    self.shadowed += 1;
                    let global_top = self.scopes.len() == 1;
                    self.scopes.last_mut().unwrap().vars.push(Var { name: name.clone(), ty, min_len, global_top, frozen: false });
                    return name;
                }
            }
        }
        self.declare(ty, min_len)
    }

    fn declare(&mut self, ty: Ty, min_len: usize) -> String {
        let name = format!("v{}", self.next_var);
        self.next_var += 1;
        let global_top = self.scopes.len() == 1;
        self.scopes.last_mut().unwrap().vars.push(Var {
            name: name.clone(),
            ty,
            min_len,
            global_top,
            frozen: false,
        });
        name
    }

    pub fn add_global(&mut self, v: Var) {
        self.scopes[0].vars.push(v);
    }

    pub fn set_counters(&mut self, var: usize, fun: usize, par: usize) {
        self.next_var = var;
        self.next_fun = fun;
        self.next_par = par;
    }

    pub fn counters(&self) -> (usize, usize, usize) {
        (self.next_var, self.next_fun, self.next_par)
    }

    fn push_scope(&mut self) {
        self.scopes.push(Scope { vars: Vec::new() });
    }

    fn pop_scope(&mut self) {
        if let Some(sc) = self.scopes.pop() {
            for v in sc.vars {
                if v.name.starts_with('v') {
                    self.dead_names.push(v.name);
                }
            }
        }
    }

    // ---- types -------------------------------------------------------------------------------

    fn scalar_ty(&mut self) -> Ty {
        let c = &self.cfg;
        let w = [c.w_int, c.w_float, c.w_bool, c.w_str];
        match self.rng.weighted(&w) {
            0 => Ty::Int,
            1 => Ty::Float,
            2 => Ty::Bool,
            _ => Ty::Str,
        }
    }

    pub fn value_ty(&mut self) -> Ty {
        let c = &self.cfg;
        let w = [c.w_int, c.w_float, c.w_bool, c.w_str, c.w_arr, c.w_anyarr];
        match self.rng.weighted(&w) {
            0 => Ty::Int,
            1 => Ty::Float,
            2 => Ty::Bool,
            3 => Ty::Str,
            4 => {
                let el = match self.rng.below(4) {
                    0 => Ty::Int,
                    1 => Ty::Float,
                    _ => Ty::Str,
                };
                let len = 1 + self.rng.usize(4);
                Ty::Arr(Box::new(el), len)
            }
            _ => Ty::AnyArr(1 + self.rng.usize(4)),
        }
    }

    // ---- literals ----------------------------------------------------------------------------

    pub fn str_lit(&mut self) -> (String, usize) {
        let s = if self.cfg.multibyte && self.rng.chance(1, 2) {
            *self.rng.pick(STRS_MULTI)
        } else {
            *self.rng.pick(STRS_ASCII)
        };
        let n = s.replace("\\n", "\n").chars().count();
        (format!("\"{}\"", s), n)
    }

    pub fn nonempty_str_lit(&mut self) -> String {
        loop {
            let (s, n) = self.str_lit();
            if n > 0 {
                return s;
            }
        }
    }

    fn float_lit(&mut self) -> String {
        let a = self.rng.below(100);
        let b = self.rng.below(100);
        format!("{}.{:02}", a, b)
    }

    fn int_lit(&mut self) -> String {
        match self.rng.below(10) {
            0 => "0".to_string(),
            1 => format!("{}", self.rng.below(100000)),
            2 => format!("(0 - {})", 1 + self.rng.below(50)),
            3 => format!("(-{})", 1 + self.rng.below(50)),
            _ => format!("{}", self.rng.below(20)),
        }
    }

    // ---- expressions -------------------------------------------------------------------------

    pub fn expr(&mut self, ty: &Ty, depth: usize) -> String {
        self.budget -= 1;
        let leaf = depth == 0 || self.budget < 0;
        match ty {
            Ty::Int => self.int_expr(depth, leaf),
            Ty::Float => self.float_expr(depth, leaf),
            Ty::Bool => self.bool_expr(depth, leaf),
            Ty::Str => self.str_expr(depth, leaf),
            Ty::Arr(el, len) => self.arr_expr(el, *len, depth, leaf),
            Ty::AnyArr(len) => self.anyarr_expr(*len, depth, leaf),
            Ty::Fun(params, ret) => self.fun_expr(params, ret, depth),
            Ty::Null => "functie() { }()".to_string(),
        }
    }

    fn var_of(&mut self, ty: &Ty) -> Option<String> {
        // session functions never alias a whole global array (they could then mutate it in place)
        let restrict = self.no_global_writes && self.in_function() && matches!(ty, Ty::Arr(_, _) | Ty::AnyArr(_));
        let vs = self.vars_where(|v| &v.ty == ty && !(restrict && v.global_top));
        if vs.is_empty() {
            None
        } else {
            Some(self.rng.pick(&vs).name.clone())
        }
    }

    fn fun_returning(&mut self, ret: &Ty) -> Option<Var> {
        let vs = self.vars_where(|v| matches!(&v.ty, Ty::Fun(_, r) if &**r == ret));
        if vs.is_empty() {
            None
        } else {
            Some(self.rng.pick(&vs).clone())
        }
    }

    fn call_of(&mut self, f: &Var, depth: usize) -> String {
        if let Ty::Fun(params, _) = &f.ty {
            let d = depth.saturating_sub(1);
            let args: Vec<String> = params.iter().map(|p| self.expr(p, d)).collect();
            format!("{}({})", f.name, args.join(", "))
        } else {
            unreachable!()
        }
    }

    pub fn index_for(&mut self, len: usize) -> String {
        // valid positive or negative index
        let i = self.rng.usize(len);
        if self.rng.chance(1, 4) {
            format!("(0 - {})", len - i)
        } else if self.rng.chance(1, 6) {
            format!("({} - {})", i + 3, 3)
        } else {
            format!("{}", i)
        }
    }

    fn elem_read(&mut self, el: &Ty) -> Option<String> {
        let vs = self.vars_where(|v| matches!(&v.ty, Ty::Arr(e, n) if &**e == el && *n > 0));
        if vs.is_empty() {
            return None;
        }
        let v = self.rng.pick(&vs).clone();
        if let Ty::Arr(_, n) = v.ty {
            let idx = self.index_for(n);
            Some(format!("{}[{}]", v.name, idx))
        } else {
            None
        }
    }

    fn if_expr(&mut self, ty: &Ty, depth: usize) -> String {
        let d = depth.saturating_sub(1);
        let c = self.expr(&Ty::Bool, d);
        let a = self.expr(ty, d);
        let b = self.expr(ty, d);
        if self.rng.chance(1, 3) {
            let c2 = self.expr(&Ty::Bool, d);
            let m = self.expr(ty, d);
            format!("(als {} {{ {} }} anders als {} {{ {} }} anders {{ {} }})", c, a, c2, m, b)
        } else {
            format!("(als {} {{ {} }} anders {{ {} }})", c, a, b)
        }
    }

    fn int_expr(&mut self, depth: usize, leaf: bool) -> String {
        if leaf {
            if self.rng.chance(3, 5) {
                if let Some(v) = self.var_of(&Ty::Int) {
                    return v;
                }
            }
            return self.int_lit();
        }
        let d = depth - 1;
        match self.rng.below(13) {
            0 | 1 => {
                let (a, b) = (self.int_expr_d(d), self.int_expr_d(d));
                format!("({} + {})", a, b)
            }
            2 => {
                let (a, b) = (self.int_expr_d(d), self.int_expr_d(d));
                format!("({} - {})", a, b)
            }
            3 => {
                let (a, b) = (self.int_expr_d(d), self.int_expr_d(d));
                format!("(({} % 97) * ({} % 89))", a, b)
            }
            4 => {
                let a = self.int_expr_d(d);
                format!("({} / {})", a, 1 + self.rng.below(9))
            }
            5 => {
                let a = self.int_expr_d(d);
                format!("({} % {})", a, 1 + self.rng.below(9))
            }
            6 => {
                // lengte of a string or array
                if self.rng.chance(1, 2) {
                    let s = self.expr(&Ty::Str, d);
                    format!("lengte({})", s)
                } else {
                    let vs = self.vars_where(|v| matches!(v.ty, Ty::Arr(_, _) | Ty::AnyArr(_)));
                    if vs.is_empty() {
                        "lengte([1, 2])".to_string()
                    } else {
                        format!("lengte({})", self.rng.pick(&vs).name)
                    }
                }
            }
            7 => match self.fun_returning(&Ty::Int) {
                Some(f) => self.call_of(&f, depth),
                None => self.int_expr(0, true),
            },
            8 => match self.elem_read(&Ty::Int) {
                Some(e) => e,
                None => self.int_expr(0, true),
            },
            9 => self.if_expr(&Ty::Int, depth),
            10 => {
                let b = self.expr(&Ty::Bool, d);
                format!("int({})", b)
            }
            11 => format!("int(\"{}\")", self.rng.below(1000)),
            _ => {
                // fused local/constant forms: identifier op literal
                match self.var_of(&Ty::Int) {
                    Some(v) => {
                        let lit = 1 + self.rng.below(9);
                        match self.rng.below(6) {
                            0 => format!("({} + {})", v, lit),
                            1 => format!("({} - {})", v, lit),
                            2 => format!("({} + {})", lit, v),
                            3 => format!("(-{})", v),
                            4 => format!("(({} % 1000) * {})", v, lit),
                            _ => format!("({} % {})", v, lit),
                        }
                    }
                    None => self.int_lit(),
                }
            }
        }
    }

    fn int_expr_d(&mut self, d: usize) -> String {
        self.expr(&Ty::Int, d)
    }

    fn float_expr(&mut self, depth: usize, leaf: bool) -> String {
        if leaf {
            if self.rng.chance(1, 2) {
                if let Some(v) = self.var_of(&Ty::Float) {
                    return v;
                }
            }
            return self.float_lit();
        }
        let d = depth - 1;
        match self.rng.below(9) {
            0 | 1 => {
                let (a, b) = (self.expr(&Ty::Float, d), self.expr(&Ty::Float, d));
                let op = *self.rng.pick(&["+", "-", "*", "/", "%"]);
                format!("({} {} {})", a, op, b)
            }
            2 => {
                let a = self.expr(&Ty::Int, d);
                format!("float({})", a)
            }
            3 => {
                let a = self.expr(&Ty::Float, d);
                format!("(-{})", a)
            }
            4 => match self.fun_returning(&Ty::Float) {
                Some(f) => self.call_of(&f, depth),
                None => self.float_expr(0, true),
            },
            5 => match self.elem_read(&Ty::Float) {
                Some(e) => e,
                None => self.float_expr(0, true),
            },
            6 => self.if_expr(&Ty::Float, depth),
            7 => format!("float(\"{}.5\")", self.rng.below(100)),
            _ => self.float_expr(0, true),
        }
    }

    fn bool_expr(&mut self, depth: usize, leaf: bool) -> String {
        if leaf {
            if self.rng.chance(1, 2) {
                if let Some(v) = self.var_of(&Ty::Bool) {
                    return v;
                }
            }
            return if self.rng.chance(1, 2) { "ja".into() } else { "nee".into() };
        }
        let d = depth - 1;
        match self.rng.below(8) {
            0 | 1 => {
                let (a, b) = (self.expr(&Ty::Int, d), self.expr(&Ty::Int, d));
                let op = *self.rng.pick(&["<", "<=", ">", ">=", "==", "!="]);
                format!("({} {} {})", a, op, b)
            }
            2 => {
                let (a, b) = (self.expr(&Ty::Float, d), self.expr(&Ty::Float, d));
                let op = *self.rng.pick(&["<", "<=", ">", ">=", "==", "!="]);
                format!("({} {} {})", a, op, b)
            }
            3 => {
                let (a, b) = (self.expr(&Ty::Str, d), self.expr(&Ty::Str, d));
                let op = *self.rng.pick(&["==", "!=", "<", ">", "<=", ">="]);
                format!("({} {} {})", a, op, b)
            }
            4 => {
                let (a, b) = (self.expr(&Ty::Bool, d), self.expr(&Ty::Bool, d));
                let op = *self.rng.pick(&["&&", "||"]);
                format!("({} {} {})", a, op, b)
            }
            5 => {
                let a = self.expr(&Ty::Bool, d);
                format!("(!{})", a)
            }
            6 => {
                let t = self.scalar_ty();
                let a = self.expr(&t, d);
                format!("bool({})", a)
            }
            _ => match self.var_of(&Ty::Int) {
                Some(v) => {
                    let op = *self.rng.pick(&["<", "<=", ">", ">=", "==", "!="]);
                    format!("({} {} {})", v, op, self.rng.below(20))
                }
                None => "ja".into(),
            },
        }
    }

    fn str_expr(&mut self, depth: usize, leaf: bool) -> String {
        if leaf {
            if self.rng.chance(1, 2) {
                if let Some(v) = self.var_of(&Ty::Str) {
                    return v;
                }
            }
            return self.str_lit().0;
        }
        let d = depth - 1;
        match self.rng.below(8) {
            0 => {
                let t = match self.rng.below(3) {
                    0 => Ty::Int,
                    1 => Ty::Float,
                    _ => Ty::Bool,
                };
                let a = self.expr(&t, d);
                format!("string({})", a)
            }
            1 => {
                let t = self.value_ty();
                let a = self.expr(&t, d);
                format!("type({})", a)
            }
            2 => {
                // character of a string variable with a known minimum length
                let vs = self.vars_where(|v| v.ty == Ty::Str && v.min_len > 0);
                if vs.is_empty() {
                    let lit = self.nonempty_str_lit();
                    format!("{}[0]", lit)
                } else {
                    let v = self.rng.pick(&vs).clone();
                    let i = self.rng.usize(v.min_len);
                    if self.rng.chance(1, 4) {
                        format!("{}[(0 - {})]", v.name, 1 + self.rng.usize(v.min_len))
                    } else {
                        format!("{}[{}]", v.name, i)
                    }
                }
            }
            3 => match self.fun_returning(&Ty::Str) {
                Some(f) => self.call_of(&f, depth),
                None => self.str_expr(0, true),
            },
            4 => match self.elem_read(&Ty::Str) {
                Some(e) => e,
                None => self.str_expr(0, true),
            },
            5 => self.if_expr(&Ty::Str, depth),
            6 => {
                let a = self.expr(&Ty::Str, d);
                format!("string({})", a)
            }
            _ => self.str_expr(0, true),
        }
    }

    fn arr_expr(&mut self, el: &Ty, len: usize, depth: usize, leaf: bool) -> String {
        let ty = Ty::Arr(Box::new(el.clone()), len);
        if self.rng.chance(2, 5) {
            if let Some(v) = self.var_of(&ty) {
                return v;
            }
        }
        if !leaf && self.rng.chance(1, 4) {
            if let Some(f) = self.fun_returning(&ty) {
                return self.call_of(&f, depth);
            }
        }
        if !leaf && self.rng.chance(1, 8) {
            return self.if_expr(&ty, depth);
        }
        let d = depth.saturating_sub(1);
        let items: Vec<String> = (0..len).map(|_| self.expr(el, d)).collect();
        format!("[{}]", items.join(", "))
    }

    fn anyarr_expr(&mut self, len: usize, depth: usize, leaf: bool) -> String {
        let ty = Ty::AnyArr(len);
        if self.rng.chance(2, 5) {
            if let Some(v) = self.var_of(&ty) {
                return v;
            }
        }
        if !leaf && self.rng.chance(1, 4) {
            if let Some(f) = self.fun_returning(&ty) {
                return self.call_of(&f, depth);
            }
        }
        let d = depth.saturating_sub(1);
        let items: Vec<String> = (0..len)
            .map(|_| {
                if leaf {
                    // no nesting at the leaves (keeps generation finite whatever the swarm weights are)
                    let t = self.scalar_ty();
                    return self.expr(&t, 0);
                }
                let t = if self.rng.chance(1, 4) {
                    // nest an existing array (aliasing) or a fresh one
                    let arrs = self.vars_where(|v| matches!(v.ty, Ty::Arr(_, _) | Ty::AnyArr(_)));
                    if !arrs.is_empty() && self.rng.chance(2, 3) {
                        return self.rng.pick(&arrs).name.clone();
                    }
                    Ty::AnyArr(self.rng.usize(3))
                } else {
                    self.value_ty()
                };
                self.expr(&t, d)
            })
            .collect();
        format!("[{}]", items.join(", "))
    }

    fn fun_expr(&mut self, params: &[Ty], ret: &Ty, depth: usize) -> String {
        let fty = Ty::Fun(params.to_vec(), Box::new(ret.clone()));
        if self.rng.chance(2, 3) {
            if let Some(v) = self.var_of(&fty) {
                return v;
            }
        }
        // anonymous function literal
        self.function_literal("", params, ret, depth)
    }

    // ---- functions ---------------------------------------------------------------------------

    pub fn function_literal(&mut self, name: &str, params: &[Ty], ret: &Ty, depth: usize) -> String {
        let base = self.scopes.len();
        self.push_scope();
        self.fn_base.push(base);
        self.fn_ctx.push(FnCtx { ret: ret.clone() });
        let saved_loop = self.loop_depth;
        self.loop_depth = 0;
        let mut pnames = Vec::new();
        for p in params {
            let n = format!("p{}", self.next_par);
            self.next_par += 1;
            let min_len = 0;
            self.scopes.last_mut().unwrap().vars.push(Var {
                name: n.clone(),
                ty: p.clone(),
                min_len,
                global_top: false,
                frozen: false,
            });
            pnames.push(n);
        }
        let mut body = String::new();
        let n = if self.fn_base.len() >= 3 { 0 } else { self.rng.usize(4) };
        for _ in 0..n {
            let s = self.stmt(depth.saturating_sub(1).min(2));
            body.push_str(&s);
            body.push(' ');
        }
        let d = if self.fn_base.len() >= 3 { 0 } else { depth.saturating_sub(1).min(2) };
        if *ret == Ty::Null {
            // a procedure: the body ends in a declaration (or is empty), compiled to a plain `Return`
            if n > 0 || self.rng.chance(2, 3) {
                let t = self.value_ty();
                let e = self.expr(&t, d);
                let e = if t == Ty::Int { format!("({} % 1000003)", e) } else { e };
                let name = self.declare(t, 0);
                body.push_str(&format!("stel {} = {};", name, e));
            }
        } else {
            let r = self.expr(ret, d);
            if self.rng.chance(1, 3) {
                body.push_str(&format!("antwoord {};", r));
            } else {
                body.push_str(&format!("{};", r));
            }
        }
        self.loop_depth = saved_loop;
        self.fn_ctx.pop();
        self.fn_base.pop();
        self.pop_scope();
        format!("functie {}({}) {{ {} }}", name, pnames.join(", "), body)
    }

    pub fn fun_sig(&mut self) -> (Vec<Ty>, Ty) {
        let n = self.rng.usize(4);
        let mut params = Vec::new();
        for _ in 0..n {
            if self.rng.chance(1, 10) {
                // a function-typed parameter: (int) -> int
                params.push(Ty::Fun(vec![Ty::Int], Box::new(Ty::Int)));
            } else {
                params.push(self.value_ty());
            }
        }
        let ret = if self.rng.chance(1, 6) { Ty::Null } else { self.value_ty() };
        (params, ret)
    }

    fn stmt_function(&mut self, depth: usize) -> String {
        let name = format!("f{}", self.next_fun);
        self.next_fun += 1;
        if self.fn_base.is_empty() && self.rng.chance(1, 5) {
            return self.recursive_function(&name);
        }
        let (params, ret) = self.fun_sig();
        let fty = Ty::Fun(params.clone(), Box::new(ret.clone()));
        let global_top = self.scopes.len() == 1;
        let lit = if self.rng.chance(1, 4) {
            // anonymous function bound to a variable
            let l = self.function_literal("", &params, &ret, depth);
            format!("stel {} = {};", name, l)
        } else {
            let l = self.function_literal(&name, &params, &ret, depth);
            format!("{};", l)
        };
        self.scopes.last_mut().unwrap().vars.push(Var {
            name,
            ty: fty,
            min_len: 0,
            global_top,
            frozen: true,
        });
        lit
    }

    /// Directly recursive function with a decreasing counter, building nested heap values.
    fn recursive_function(&mut self, name: &str) -> String {
        let global_top = self.scopes.len() == 1;
        let kind = self.rng.below(3);
        let (src, ret) = match kind {
            0 => (
                format!(
                    "functie {n}(p) {{ als p < 1 {{ antwoord 0; }}; (p + {n}(p - 1)) }};",
                    n = name
                ),
                Ty::Int,
            ),
            1 => {
                let s = self.nonempty_str_lit();
                (
                    format!(
                        "functie {n}(p) {{ als p < 1 {{ antwoord [p]; }}; stel t = {s}; [p, {n}(p - 1), t] }};",
                        n = name,
                        s = s
                    ),
                    Ty::AnyArr(3),
                )
            }
            _ => (
                format!(
                    "functie {n}(p) {{ als p < 1 {{ antwoord 0.5; }}; (float(p) + {n}(p - 1)) }};",
                    n = name
                ),
                Ty::Float,
            ),
        };
        // only callable with a small literal argument: modelled as a 0-ary function via a wrapper
        let depth_arg = 1 + self.rng.below(12);
        let wrapper = format!("f{}", self.next_fun);
        self.next_fun += 1;
        let wsrc = format!(" functie {w}() {{ {n}({d}) }};", w = wrapper, n = name, d = depth_arg);
        let ret2 = if kind == 1 && depth_arg == 0 { Ty::AnyArr(1) } else { ret };
        self.scopes.last_mut().unwrap().vars.push(Var {
            name: wrapper,
            ty: Ty::Fun(vec![], Box::new(ret2)),
            min_len: 0,
            global_top,
            frozen: true,
        });
        format!("{}{}", src, wsrc)
    }

    // ---- statements --------------------------------------------------------------------------

    fn failing_stmt(&mut self) -> String {
        let kinds = [
            ("type:add", "(1 + ja);"),
            ("index:array", "[1, 2][5];"),
            ("argument:int", "int(\"x\");"),
            ("type:lengte", "lengte(1);"),
            ("type:cond", "als 1 { 2 };"),
            ("type:call", "stel nietf = 3; nietf();"),
            ("type:in-array", "[1, \"a\", (2.5 + 1)];"),
            ("index:string", "\"abc\"[7];"),
            ("type:not", "(!5);"),
            ("type:index-set", "stel nl = [1]; nl[ja] = 2;"),
            ("argument:arity", "type(1, [2.5, \"x\"]);"),
            ("argument:arity0", "lengte();"),
            ("argument:string-of-array", "string([1, \"a\", 2.5]);"),
            ("argument:float-of-array", "float([\"q\"]);"),
            ("type:call-string", "stel nietf = \"tekst\"; nietf([1.5], \"arg\");"),
            ("type:index-float", "[\"a\", 2.5][1.5];"),
            ("type:cmp", "(\"a\" < 1.5);"),
            ("type:negate", "(-\"abc\");"),
            ("index:assign", "stel nl = [1.5, \"b\"]; nl[2] = [nl];"),
            ("compile:reference", "onbekend;"),
            ("compile:break", "stop;"),
            // indices below the start and past the end, read and written, lists and strings
            ("index:array-negative", "[1, 2][-5];"),
            ("index:string-negative", "\"abc\"[-7];"),
            ("index:assign-negative", "stel nl = [1.5, \"b\"]; nl[-3] = [nl];"),
            ("index:string-assign", "stel nl = string(123); nl[5] = \"x\";"),
            ("index:string-assign-negative", "stel nl = string(123); nl[-9] = \"x\";"),
            ("index:string-assign-end", "stel nl = string(123); nl[3] = \"x\";"),
            ("index:empty", "[][0];"),
            // panics of the pinned tree (deterministic in both builds): the machine is left by unwinding
            ("panic:divide-by-zero", "[string(3), 1 / 0];"),
            ("panic:remainder-by-zero", "stel nl = [2.5]; nl[0] = 7 % 0;"),
        ];
        // a name whose block has ended is unknown again (a compile-time reference error)
        if self.rng.chance(1, 5) {
            let visible: Vec<String> = self.visible().into_iter().map(|v| v.name.clone()).collect();
            let dead: Vec<String> = self.dead_names.iter().filter(|n| !visible.contains(n)).cloned().collect();
            if !dead.is_empty() {
                let n = self.rng.pick(&dead).clone();
                self.planted = Some("compile:out-of-scope".to_string());
                return format!("{};", n);
            }
        }
        // ill-typed operations, systematically: every operator, operands of every kind on either
        // side, as literals, as a global variable or as a parameter inside a function (the fused
        // `local <op> literal` instructions); and `antwoord` where there is no function to leave
        if self.rng.chance(2, 5) {
            let n = self.stmt_counter;
            if self.rng.chance(1, 8) && !self.in_function() {
                self.planted = Some("odd:return-at-top-level".to_string());
                let v = *self.rng.pick(&["\"abc\"", "string(42)", "[1.5, \"x\"]", "2.5 + 1.5", "5"]);
                return format!("antwoord {};", v);
            }
            const OPERANDS: &[(&str, &str)] = &[
                ("int", "3"),
                ("float", "2.5"),
                ("bool", "ja"),
                ("bool", "nee"),
                ("null", "NULL"),
                ("string", "\"abc\""),
                ("string", "string(12)"),
                ("array", "[1, \"a\"]"),
                ("array", "[string(7), 2.5]"),
            ];
            const ARITH: &[&str] = &["+", "-", "*", "/", "%"];
            const CMP: &[&str] = &["<", "<=", ">", ">=", "==", "!="];
            const LOGIC: &[&str] = &["&&", "||"];
            let mut pre = String::new();
            let (lk, lv, rk, rv, op) = loop {
                let (lk, lv) = *self.rng.pick(OPERANDS);
                let (rk, rv) = *self.rng.pick(OPERANDS);
                let group = self.rng.below(3);
                let op = match group {
                    0 => *self.rng.pick(ARITH),
                    1 => *self.rng.pick(CMP),
                    _ => *self.rng.pick(LOGIC),
                };
                let ill = match group {
                    // arithmetic: different kinds, or a kind arithmetic is not defined on
                    0 => lk != rk || matches!(lk, "bool" | "null" | "string" | "array"),
                    // comparisons of different kinds (never two arrays: not implemented, DESIGN 4.3 item 6)
                    1 => lk != rk && !(lk == "array" && rk == "array"),
                    // logic on anything that is not two booleans
                    _ => lk != "bool" || rk != "bool",
                };
                if ill {
                    break (lk, lv, rk, rv, op);
                }
            };
            let _ = (lk, rk);
            let mut operand = |v: &str, pre: &mut String| -> String {
                if v == "NULL" {
                    if !pre.contains("nietp") {
                        pre.push_str(&format!("functie nietp{}() {{ }}; ", n));
                    }
                    format!("nietp{}()", n)
                } else {
                    v.to_string()
                }
            };
            let l = operand(lv, &mut pre);
            let r = operand(rv, &mut pre);
            self.planted = Some(format!("odd:{}", op));
            return match self.rng.below(4) {
                0 => format!("{}({} {} {});", pre, l, op, r),
                1 => format!("{}functie nietf{n}(s) {{ (s {op} {r}) }}; nietf{n}({l});", pre, n = n, op = op, l = l, r = r),
                2 => format!("{}functie nietf{n}(s) {{ ({l} {op} s) }}; nietf{n}({r});", pre, n = n, op = op, l = l, r = r),
                _ => format!("{}stel nl{n} = {l}; (nl{n} {op} {r});", pre, n = n, op = op, l = l, r = r),
            };
        }
        let mut i = self.rng.usize(kinds.len());
        if kinds[i].0 == "compile:break" && self.lexical_loops > 0 {
            i = 0;
        }
        if kinds[i].0 == "type:call" && self.planted.is_some() {
            i = 0;
        }
        self.planted = Some(kinds[i].0.to_string());
        // unique names so that repeated planting cannot redeclare
        kinds[i]
            .1
            .replace("nietf", &format!("nietf{}", self.stmt_counter))
            .replace("nl", &format!("nl{}", self.stmt_counter))
    }

    pub fn stmt(&mut self, depth: usize) -> String {
        self.stmt_counter += 1;
        if self.plant_at == Some(self.stmt_counter) {
            return self.failing_stmt();
        }
        self.budget = 40;
        let c = self.cfg.clone();
        let nested_ok = depth > 0;
        let w = [
            c.w_decl,
            c.w_assign,
            c.w_opassign,
            c.w_elem,
            c.w_strelem,
            c.w_print,
            if nested_ok { c.w_if } else { 0 },
            if nested_ok { c.w_while } else { 0 },
            if nested_ok { c.w_block } else { 0 },
            if nested_ok && self.fn_base.len() < 2 { c.w_fun } else { 0 },
            c.w_call,
            c.w_cycle,
            c.w_expr,
            if self.loop_depth > 0 { 1 } else { 0 },
            if self.in_function() { 1 } else { 0 },
        ];
        let ed = c.max_depth.min(depth + 1);
        match self.rng.weighted(&w) {
            0 => self.stmt_decl(ed),
            1 => self.stmt_assign(ed),
            2 => self.stmt_opassign(ed),
            3 => self.stmt_elem(ed),
            4 => self.stmt_strelem(),
            5 => self.stmt_print(ed),
            6 => self.stmt_if(depth),
            7 => self.stmt_while(depth),
            8 => self.stmt_block(depth),
            9 => self.stmt_function(depth),
            10 => self.stmt_call(ed),
            11 => self.stmt_cycle(),
            12 => {
                let t = self.value_ty();
                format!("{};", self.expr(&t, ed))
            }
            13 => self.stmt_loop_exit(),
            _ => self.stmt_return(ed),
        }
    }

    fn stmt_decl(&mut self, d: usize) -> String {
        let ty = self.value_ty();
        let (e, min_len) = if ty == Ty::Str && self.rng.chance(1, 2) {
            // a fresh (non-literal) string, safe to mutate in place
            let n = 10 + self.rng.below(99990);
            (format!("string({})", n), 2)
        } else if ty == Ty::Str && self.rng.chance(1, 2) {
            let (s, n) = self.str_lit();
            // In a session a literal is never changed in place: equal literals are one object in a
            // single program but separate objects on separate lines, so the growing-program model and
            // the session would legitimately differ (literal aliasing belongs to C13, not to C17).
            (s, if self.no_global_writes { 0 } else { n })
        } else {
            (self.expr(&ty, d), 0)
        };
        let e = if ty == Ty::Int { format!("({} % 1000003)", e) } else { e };
        let name = self.declare_init(ty, min_len, &e);
        format!("stel {} = {};", name, e)
    }

    fn stmt_assign(&mut self, d: usize) -> String {
        // a string variable with a known minimum length is never re-assigned (statements that index
        // it may run again later: loop bodies, functions), only mutated in place, which keeps its length
        let vs = self.writable(|v| !v.frozen && !matches!(v.ty, Ty::Fun(_, _)) && !(v.ty == Ty::Str && v.min_len > 0));
        if vs.is_empty() {
            return self.stmt_decl(d);
        }
        let v = self.rng.pick(&vs).clone();
        let e = self.expr(&v.ty, d);
        let e = if v.ty == Ty::Int { format!("({} % 1000003)", e) } else { e };
        format!("{} = {};", v.name, e)
    }

    fn stmt_opassign(&mut self, d: usize) -> String {
        let vs = self.writable(|v| !v.frozen && matches!(v.ty, Ty::Int | Ty::Float));
        if vs.is_empty() {
            return self.stmt_decl(d);
        }
        let v = self.rng.pick(&vs).clone();
        if v.ty == Ty::Int {
            let e = self.expr(&Ty::Int, d.saturating_sub(1));
            let op = *self.rng.pick(&["+", "-"]);
            format!("{} {}= ({} % 1000);", v.name, op, e)
        } else {
            let e = self.expr(&Ty::Float, d.saturating_sub(1));
            let op = *self.rng.pick(&["+", "-", "*", "/"]);
            format!("{} {}= {};", v.name, op, e)
        }
    }

    fn stmt_elem(&mut self, d: usize) -> String {
        let vs = self.writable(|v| matches!(&v.ty, Ty::Arr(_, n) | Ty::AnyArr(n) if *n > 0));
        if vs.is_empty() {
            return self.stmt_decl(d);
        }
        let v = self.rng.pick(&vs).clone();
        match &v.ty {
            Ty::Arr(el, n) => {
                let idx = self.index_for(*n);
                let e = self.expr(el, d);
                let e = if **el == Ty::Int { format!("({} % 1000003)", e) } else { e };
                format!("{}[{}] = {};", v.name, idx, e)
            }
            Ty::AnyArr(n) => {
                let idx = self.index_for(*n);
                let t = self.value_ty();
                let e = self.expr(&t, d);
                format!("{}[{}] = {};", v.name, idx, e)
            }
            _ => unreachable!(),
        }
    }

    fn stmt_strelem(&mut self) -> String {
        let vs = self.writable(|v| v.ty == Ty::Str && v.min_len > 0 && !v.frozen);
        if vs.is_empty() {
            return self.stmt_decl(1);
        }
        let v = self.rng.pick(&vs).clone();
        let i = self.rng.usize(v.min_len);
        // replacement of exactly one character keeps the known length
        let repl = if self.cfg.multibyte && self.rng.chance(1, 2) {
            *self.rng.pick(&["é", "日", "😀", "ß"])
        } else {
            *self.rng.pick(&["a", "b", "Z", "0", "_"])
        };
        if self.rng.chance(1, 5) {
            // from another string variable's character (a fresh one-character string)
            let others = self.vars_where(|o| o.ty == Ty::Str && o.min_len > 0 && o.name != v.name);
            if !others.is_empty() {
                let o = self.rng.pick(&others).clone();
                return format!("{}[{}] = {}[0];", v.name, i, o.name);
            }
        }
        format!("{}[{}] = \"{}\";", v.name, i, repl)
    }

    fn printable(&self, v: &Var) -> bool {
        match &v.ty {
            Ty::Int | Ty::Float | Ty::Bool | Ty::Str => true,
            Ty::Arr(_, _) => true,
            _ => false,
        }
    }

    fn stmt_print(&mut self, d: usize) -> String {
        let vs: Vec<Var> = self.vars_where(|_| true).into_iter().filter(|v| self.printable(v)).collect();
        let n = self.rng.usize(3);
        let mut args = Vec::new();
        for _ in 0..n {
            if !vs.is_empty() && self.rng.chance(2, 3) {
                args.push(self.rng.pick(&vs).name.clone());
            } else {
                let t = self.scalar_ty();
                args.push(self.expr(&t, d.saturating_sub(1)));
            }
        }
        let fmt = match (n, self.rng.below(6)) {
            (0, _) => "\"regel\"".to_string(),
            (_, 0) => "\"{} {} {} te veel\"".to_string(),
            (_, 1) => "\"geen plaats\"".to_string(),
            (1, _) => "\"a={}\"".to_string(),
            _ => "\"{} en {}\"".to_string(),
        };
        if args.is_empty() {
            format!("print({});", fmt)
        } else {
            format!("print({}, {});", fmt, args.join(", "))
        }
    }

    fn block_body(&mut self, depth: usize, min: usize, max: usize) -> String {
        self.push_scope();
        let n = min + self.rng.usize(max - min + 1);
        let mut s = String::new();
        for _ in 0..n {
            s.push_str(&self.stmt(depth));
            s.push(' ');
        }
        // a block used as a value must end in an expression statement (DESIGN 4.3 item 1)
        let t = self.scalar_ty();
        let e = self.expr(&t, 1);
        s.push_str(&format!("{};", e));
        self.pop_scope();
        s
    }

    fn stmt_if(&mut self, depth: usize) -> String {
        let d = depth - 1;
        let c = self.expr(&Ty::Bool, self.cfg.max_depth.min(2));
        let a = self.block_body(d, 0, 3);
        match self.rng.below(4) {
            0 => format!("als {} {{ {} }};", c, a),
            1 => {
                let c2 = self.expr(&Ty::Bool, 1);
                let b = self.block_body(d, 0, 2);
                let e = self.block_body(d, 0, 2);
                // the nested `als` is parsed as a statement of its own and swallows one `;`
                format!("als {} {{ {} }} anders als {} {{ {} }} anders {{ {} }};;", c, a, c2, b, e)
            }
            _ => {
                let b = self.block_body(d, 0, 3);
                format!("als {} {{ {} }} anders {{ {} }};", c, a, b)
            }
        }
    }

    fn stmt_while(&mut self, depth: usize) -> String {
        if self.loop_depth >= 2 {
            return self.stmt_decl(1);
        }
        let d = depth - 1;
        let counter = self.declare(Ty::Int, 0);
        // freeze the counter
        for s in self.scopes.iter_mut() {
            for v in s.vars.iter_mut() {
                if v.name == counter {
                    v.frozen = true;
                }
            }
        }
        let bound = 1 + self.rng.below(self.cfg.loop_max as u64);
        self.loop_depth += 1;
        self.lexical_loops += 1;
        let body = self.block_body(d, 1, 4);
        self.lexical_loops -= 1;
        self.loop_depth -= 1;
        format!(
            "stel {c} = 0; zolang {c} < {b} {{ {c} = {c} + 1; {body} }};",
            c = counter,
            b = bound,
            body = body
        )
    }

    fn stmt_loop_exit(&mut self) -> String {
        let c = self.expr(&Ty::Bool, 1);
        if self.rng.chance(1, 2) {
            format!("als {} {{ stop; }};", c)
        } else {
            format!("als {} {{ volgende; }};", c)
        }
    }

    fn stmt_return(&mut self, d: usize) -> String {
        let ret = self.fn_ctx.last().unwrap().ret.clone();
        if ret == Ty::Null {
            return self.stmt_decl(d);
        }
        let c = self.expr(&Ty::Bool, 1);
        let e = self.expr(&ret, d.saturating_sub(1));
        format!("als {} {{ antwoord {}; }};", c, e)
    }

    fn stmt_block(&mut self, depth: usize) -> String {
        let b = self.block_body(depth - 1, 1, 3);
        format!("{{ {} }};", b)
    }

    fn stmt_call(&mut self, d: usize) -> String {
        let fs = self.vars_where(|v| matches!(v.ty, Ty::Fun(_, _)));
        if fs.is_empty() {
            if self.fn_base.len() < 2 {
                return self.stmt_function(d.min(2));
            }
            return self.stmt_decl(d);
        }
        let f = self.rng.pick(&fs).clone();
        let call = self.call_of(&f, d);
        if let Ty::Fun(_, ret) = &f.ty {
            if **ret == Ty::Null {
                // the value of the previous statement stays the "last value" across this call
                let s = self.nonempty_str_lit();
                return match self.rng.below(3) {
                    0 => format!("string({}); {};", self.rng.below(1000), call),
                    1 => format!("[{}, {}]; {};", s, self.float_lit(), call),
                    _ => format!("{};", call),
                };
            }
            match self.rng.below(4) {
                0 => {
                    // keep the result alive in a variable
                    let ret = (**ret).clone();
                    let min_len = 0;
                    let name = self.declare(ret, min_len);
                    return format!("stel {} = {};", name, call);
                }
                1 if ret.is_heap() => {
                    // pending operands around the call: array literal with heap temporaries
                    let s = self.str_lit().0;
                    let fl = self.float_lit();
                    return format!("[{}, {}, {}];", s, call, fl);
                }
                _ => {}
            }
        }
        format!("{};", call)
    }

    fn stmt_cycle(&mut self) -> String {
        let vs = self.writable(|v| matches!(v.ty, Ty::AnyArr(n) if n > 0));
        if vs.is_empty() {
            let n = 1 + self.rng.usize(3);
            let e = self.anyarr_expr(n, 1, false);
            let name = self.declare(Ty::AnyArr(n), 0);
            return format!("stel {} = {};", name, e);
        }
        let a = self.rng.pick(&vs).clone();
        let b = self.rng.pick(&vs).clone();
        let (na, nb) = match (&a.ty, &b.ty) {
            (Ty::AnyArr(x), Ty::AnyArr(y)) => (*x, *y),
            _ => unreachable!(),
        };
        let ia = self.rng.usize(na);
        let ib = self.rng.usize(nb);
        match self.rng.below(3) {
            0 => format!("{a}[{i}] = {a};", a = a.name, i = ia),
            1 => format!("{a}[{i}] = {b}; {b}[{j}] = {a};", a = a.name, b = b.name, i = ia, j = ib),
            _ => format!("{a}[{i}] = {b};", a = a.name, b = b.name, i = ia),
        }
    }

    // ---- whole programs ----------------------------------------------------------------------

    pub fn epilogue(&self) -> String {
        let names: Vec<String> = self.scopes[0].vars.iter().map(|v| v.name.clone()).collect();
        format!("[{}];", names.join(", "))
    }

    pub fn program(mut self) -> Program {
        let n = self.cfg.stmts;
        if self.cfg.fail_pct > 0 && self.rng.below(100) < self.cfg.fail_pct as u64 {
            // plant one natural failure somewhere among the statements (any nesting depth)
            self.plant_at = Some(1 + self.rng.usize(n * 2));
        }
        let mut src = String::new();
        let depth = self.cfg.max_depth;
        for _ in 0..n {
            let s = self.stmt(depth);
            src.push_str(&s);
            src.push('\n');
        }
        if self.cfg.epilogue {
            src.push_str(&self.epilogue());
            src.push('\n');
        }
        Program {
            src,
            planted: self.planted.clone(),
            stmts: self.stmt_counter,
        }
    }
}

pub fn generate(seed: u64, heap_heavy: bool, fail_pct: u32) -> Program {
    let mut rng = Rng::new(seed);
    let mut cfg = Swarm::draw(&mut rng, heap_heavy);
    cfg.fail_pct = fail_pct;
    // one program in five ends without the epilogue: its result is then whatever the last expression
    // statement left (possibly several statements back, with calls and collections in between)
    if rng.chance(1, 5) {
        cfg.epilogue = false;
    }
    Gen::new(&mut rng, cfg).program()
}
