//! Explicit, self-contained scenario descriptions (what replay files contain).

use crate::alloc;
use crate::runner::Plan;
use crate::sim::CollectPlan;
use serde_json::{json, Value};

pub fn plan_to_json(p: &Plan) -> Value {
    let collect = match &p.collect {
        CollectPlan::Shipped => json!("shipped"),
        CollectPlan::Every => json!("every-step"),
        CollectPlan::Points(v) => json!({ "extra_points": v }),
    };
    json!({
        "crash_at": p.crash_at,
        "compile_crash_at": p.compile_crash_at,
        "collect": collect,
        "budget": p.budget,
        "alloc_mode": alloc::mode_name(p.alloc_mode),
        "audit_every_step": p.audit_every_step,
        "exact": p.exact,
        "track_survivors": p.track_survivors,
        "check_foreign": p.check_foreign,
        "stop_on_finding": p.stop_on_finding,
        "tail": p.tail,
    })
}

pub fn plan_from_json(v: &Value) -> Plan {
    let collect = match &v["collect"] {
        Value::String(s) if s == "every-step" => CollectPlan::Every,
        Value::Object(o) => CollectPlan::Points(
            o.get("extra_points")
                .and_then(|a| a.as_array())
                .map(|a| a.iter().filter_map(|x| x.as_u64()).collect())
                .unwrap_or_default(),
        ),
        _ => CollectPlan::Shipped,
    };
    Plan {
        crash_at: v["crash_at"].as_u64(),
        compile_crash_at: v["compile_crash_at"].as_u64(),
        collect,
        budget: v["budget"].as_u64().unwrap_or(200_000),
        alloc_mode: alloc::mode_from_name(v["alloc_mode"].as_str().unwrap_or("plain")),
        audit_every_step: v["audit_every_step"].as_bool().unwrap_or(false),
        exact: v["exact"].as_bool().unwrap_or(false),
        track_survivors: v["track_survivors"].as_bool().unwrap_or(false),
        check_foreign: v["check_foreign"].as_bool().unwrap_or(false),
        stop_on_finding: v["stop_on_finding"].as_bool().unwrap_or(true),
        trace: false,
        tail: v["tail"].as_u64(),
    }
}

pub fn eval_spec(engine: &str, src: &str, plan: &Plan) -> Value {
    json!({
        "engine": engine,
        "kind": "eval",
        "program": src,
        "plan": plan_to_json(plan),
    })
}
