//! One integer decides everything: splitmix64 -> xoshiro256**.
//! No other source of randomness exists in the harness.

#[derive(Clone)]
pub struct Rng {
    s: [u64; 4],
}

pub fn splitmix(x: &mut u64) -> u64 {
    *x = x.wrapping_add(0x9E37_79B9_7F4A_7C15);
    let mut z = *x;
    z = (z ^ (z >> 30)).wrapping_mul(0xBF58_476D_1CE4_E5B9);
    z = (z ^ (z >> 27)).wrapping_mul(0x94D0_49BB_1331_11EB);
    z ^ (z >> 31)
}

/// Derives the seed of run `index` of engine `engine` from the batch seed.
pub fn mix(seed: u64, engine: u64, index: u64) -> u64 {
    let mut x = seed ^ engine.wrapping_mul(0xA24B_AED4_963E_E407);
    let a = splitmix(&mut x);
    let mut y = a ^ index.wrapping_mul(0x9FB2_1C65_1E98_DF25);
    splitmix(&mut y)
}

impl Rng {
    pub fn new(seed: u64) -> Rng {
        let mut x = seed;
        let s = [
            splitmix(&mut x),
            splitmix(&mut x),
            splitmix(&mut x),
            splitmix(&mut x),
        ];
        Rng { s }
    }

    pub fn next_u64(&mut self) -> u64 {
        let result = self.s[1].wrapping_mul(5).rotate_left(7).wrapping_mul(9);
        let t = self.s[1] << 17;
        self.s[2] ^= self.s[0];
        self.s[3] ^= self.s[1];
        self.s[1] ^= self.s[2];
        self.s[0] ^= self.s[3];
        self.s[2] ^= t;
        self.s[3] = self.s[3].rotate_left(45);
        result
    }

    /// Uniform in 0..n (n > 0)
    pub fn below(&mut self, n: u64) -> u64 {
        debug_assert!(n > 0);
        // multiply-shift; bias is irrelevant here
        ((self.next_u64() as u128 * n as u128) >> 64) as u64
    }

    pub fn range(&mut self, lo: i64, hi_inclusive: i64) -> i64 {
        lo + self.below((hi_inclusive - lo + 1) as u64) as i64
    }

    pub fn usize(&mut self, n: usize) -> usize {
        self.below(n as u64) as usize
    }

    /// True with probability num/den
    pub fn chance(&mut self, num: u64, den: u64) -> bool {
        self.below(den) < num
    }

    pub fn pick<'a, T>(&mut self, items: &'a [T]) -> &'a T {
        &items[self.usize(items.len())]
    }

    /// Index drawn according to integer weights (at least one weight must be > 0)
    pub fn weighted(&mut self, weights: &[u32]) -> usize {
        let total: u64 = weights.iter().map(|w| *w as u64).sum();
        let mut x = self.below(total.max(1));
        for (i, w) in weights.iter().enumerate() {
            if x < *w as u64 {
                return i;
            }
            x -= *w as u64;
        }
        weights.len() - 1
    }

    pub fn fork(&mut self) -> Rng {
        Rng::new(self.next_u64())
    }
}

/// FNV-1a style fold used for event-log hashes (never for scheduling decisions)
#[derive(Clone, Copy)]
pub struct Fold(pub u64);

impl Fold {
    pub fn new() -> Fold {
        Fold(0xcbf2_9ce4_8422_2325)
    }
    #[inline]
    pub fn u64(&mut self, v: u64) {
        let mut h = self.0;
        for i in 0..8 {
            h ^= (v >> (i * 8)) & 0xff;
            h = h.wrapping_mul(0x0000_0100_0000_01B3);
        }
        self.0 = h;
    }
    pub fn bytes(&mut self, b: &[u8]) {
        let mut h = self.0;
        for x in b {
            h ^= *x as u64;
            h = h.wrapping_mul(0x0000_0100_0000_01B3);
        }
        self.0 = h;
        self.u64(b.len() as u64);
    }
    pub fn str(&mut self, s: &str) {
        self.bytes(s.as_bytes())
    }
}
