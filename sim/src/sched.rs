//! Sim-threads (seam N5): real OS threads, exactly one of which holds the baton. All scheduling
//! decisions are drawn from the seeded generator by the baton holder at instruction boundaries, so
//! the interleaving is a pure function of the seed; the recorded schedule replays it exactly.

use crate::rng::Rng;
use std::sync::{Condvar, Mutex};

#[derive(Clone, Debug, PartialEq)]
pub struct Switch {
    pub at: u64,
    pub from: usize,
    pub to: usize,
}

pub enum Policy {
    /// geometric run lengths with the given mean
    Random { mean: u64 },
    /// PCT-like: `points` change points spread over `horizon` steps
    ChangePoints { points: Vec<u64> },
    /// replay an explicit schedule
    Replay { switches: Vec<Switch>, next: usize },
}

struct Inner {
    rng: Rng,
    policy: Policy,
    current: usize,
    runnable: Vec<bool>,
    countdown: u64,
    global_step: u64,
    schedule: Vec<Switch>,
    aborted: bool,
}

pub struct Sched {
    inner: Mutex<Inner>,
    cvs: Vec<Condvar>,
}

impl Sched {
    pub fn new(threads: usize, seed: u64, policy: Policy) -> Sched {
        let mut rng = Rng::new(seed);
        let countdown = match &policy {
            Policy::Random { mean } => 1 + rng.below(*mean * 2),
            _ => 0,
        };
        Sched {
            inner: Mutex::new(Inner {
                rng,
                policy,
                current: 0,
                runnable: vec![true; threads],
                countdown,
                global_step: 0,
                schedule: Vec::new(),
                aborted: false,
            }),
            cvs: (0..threads).map(|_| Condvar::new()).collect(),
        }
    }

    fn lock(&self) -> std::sync::MutexGuard<'_, Inner> {
        match self.inner.lock() {
            Ok(g) => g,
            Err(p) => p.into_inner(),
        }
    }

    /// Blocks until `tid` holds the baton.
    pub fn wait_turn(&self, tid: usize) {
        let mut g = self.lock();
        while g.current != tid && !g.aborted {
            g = match self.cvs[tid].wait(g) {
                Ok(g) => g,
                Err(p) => p.into_inner(),
            };
        }
    }

    fn pick_next(g: &mut Inner, from: usize) -> usize {
        let candidates: Vec<usize> = (0..g.runnable.len()).filter(|i| g.runnable[*i]).collect();
        if candidates.is_empty() {
            return from;
        }
        candidates[g.rng.usize(candidates.len())]
    }

    fn hand_over(&self, mut g: std::sync::MutexGuard<'_, Inner>, from: usize, to: usize, wait: bool) -> bool {
        if to == from {
            return false;
        }
        let at = g.global_step;
        g.schedule.push(Switch { at, from, to });
        g.current = to;
        self.cvs[to].notify_one();
        if wait {
            while g.current != from && !g.aborted {
                g = match self.cvs[from].wait(g) {
                    Ok(g) => g,
                    Err(p) => p.into_inner(),
                };
            }
        }
        true
    }

    /// Called by the baton holder at every instruction boundary. Returns true if it gave the baton away
    /// (and got it back).
    pub fn maybe_switch(&self, tid: usize) -> bool {
        let mut g = self.lock();
        if g.aborted {
            return false;
        }
        let step = g.global_step;
        g.global_step += 1;
        let want: Option<usize> = match &mut g.policy {
            Policy::Random { mean } => {
                let mean = *mean;
                if g.countdown > 1 {
                    g.countdown -= 1;
                    None
                } else {
                    g.countdown = 1 + g.rng.below(mean * 2);
                    Some(usize::MAX)
                }
            }
            Policy::ChangePoints { points } => {
                if points.binary_search(&step).is_ok() {
                    Some(usize::MAX)
                } else {
                    None
                }
            }
            Policy::Replay { switches, next } => {
                if *next < switches.len() && switches[*next].at == step && switches[*next].from == tid {
                    let to = switches[*next].to;
                    *next += 1;
                    Some(to)
                } else {
                    None
                }
            }
        };
        match want {
            None => false,
            Some(to) => {
                let to = if to == usize::MAX { Self::pick_next(&mut g, tid) } else { to };
                if !g.runnable.get(to).copied().unwrap_or(false) {
                    return false;
                }
                // the step at which the switch happens is `step`
                g.global_step = step;
                let r = self.hand_over(g, tid, to, true);
                let mut g = self.lock();
                g.global_step = g.global_step.max(step) + 1;
                r
            }
        }
    }

    /// Called by the baton holder between evaluations: an explicit scheduling point.
    pub fn yield_point(&self, tid: usize) -> bool {
        self.maybe_switch(tid)
    }

    /// Draw from the shared generator (baton holder only), e.g. to pick the next work item.
    pub fn draw(&self, n: u64) -> u64 {
        let mut g = self.lock();
        g.rng.below(n.max(1))
    }

    /// The calling thread has no more work: give the baton to somebody else for good.
    pub fn finish(&self, tid: usize) {
        let mut g = self.lock();
        g.runnable[tid] = false;
        let next = match &mut g.policy {
            Policy::Replay { switches, next } => {
                if *next < switches.len() && switches[*next].from == tid {
                    let to = switches[*next].to;
                    *next += 1;
                    Some(to)
                } else {
                    None
                }
            }
            _ => None,
        };
        let to = match next {
            Some(t) if g.runnable.get(t).copied().unwrap_or(false) => t,
            _ => Self::pick_next(&mut g, tid),
        };
        if to != tid {
            self.hand_over(g, tid, to, false);
        }
    }

    pub fn abort(&self) {
        let mut g = self.lock();
        g.aborted = true;
        for cv in &self.cvs {
            cv.notify_all();
        }
    }

    pub fn schedule(&self) -> Vec<Switch> {
        self.lock().schedule.clone()
    }

    pub fn global_steps(&self) -> u64 {
        self.lock().global_step
    }
}
