//! Sim-threads (seam N5): real OS threads, exactly one of which holds the baton. Every scheduling
//! decision is drawn from the seeded generator by the baton holder at an instruction boundary (or at
//! an evaluation boundary), so the interleaving is a pure function of the seed; the recorded
//! schedule, a list of (decision point, from, to), replays it exactly.

use crate::rng::Rng;
use std::sync::{Condvar, Mutex};

#[derive(Clone, Debug, PartialEq)]
pub struct Switch {
    /// index of the scheduling point (number of scheduling points passed before it)
    pub at: u64,
    pub from: usize,
    pub to: usize,
}

pub enum Policy {
    /// geometric-ish run lengths with the given mean
    Random { mean: u64 },
    /// PCT-like: the baton changes hands exactly at these scheduling points
    ChangePoints { points: Vec<u64> },
    /// replay an explicit schedule
    Replay { switches: Vec<Switch>, next: usize },
}

struct Inner {
    rng: Rng,
    policy: Policy,
    current: usize,
    runnable: Vec<bool>,
    countdown: u64,
    point: u64,
    schedule: Vec<Switch>,
    aborted: bool,
}

pub struct Sched {
    inner: Mutex<Inner>,
    cvs: Vec<Condvar>,
}

impl Sched {
    pub fn new(threads: usize, seed: u64, policy: Policy) -> Sched {
        let mut rng = Rng::new(seed);
        let countdown = match &policy {
            Policy::Random { mean } => 1 + rng.below(*mean * 2),
            _ => 0,
        };
        Sched {
            inner: Mutex::new(Inner {
                rng,
                policy,
                current: 0,
                runnable: vec![true; threads],
                countdown,
                point: 0,
                schedule: Vec::new(),
                aborted: false,
            }),
            cvs: (0..threads).map(|_| Condvar::new()).collect(),
        }
    }

    fn lock(&self) -> std::sync::MutexGuard<'_, Inner> {
        match self.inner.lock() {
            Ok(g) => g,
            Err(p) => p.into_inner(),
        }
    }

    fn wait_for<'a>(&'a self, mut g: std::sync::MutexGuard<'a, Inner>, tid: usize) -> std::sync::MutexGuard<'a, Inner> {
        while g.current != tid && !g.aborted {
            g = match self.cvs[tid].wait(g) {
                Ok(g) => g,
                Err(p) => p.into_inner(),
            };
        }
        g
    }

    /// Blocks until `tid` holds the baton.
    pub fn wait_turn(&self, tid: usize) {
        let g = self.lock();
        let _g = self.wait_for(g, tid);
    }

    fn pick_next(g: &mut Inner, fallback: usize) -> usize {
        let candidates: Vec<usize> = (0..g.runnable.len()).filter(|i| g.runnable[*i]).collect();
        if candidates.is_empty() {
            return fallback;
        }
        candidates[g.rng.usize(candidates.len())]
    }

    /// A scheduling point. Called by the baton holder only. Returns true if the baton went away and came back.
    pub fn maybe_switch(&self, tid: usize) -> bool {
        let mut g = self.lock();
        if g.aborted {
            return false;
        }
        let at = g.point;
        g.point += 1;
        let want: Option<usize> = match &mut g.policy {
            Policy::Random { mean } => {
                let mean = *mean;
                if g.countdown > 1 {
                    g.countdown -= 1;
                    None
                } else {
                    g.countdown = 1 + g.rng.below(mean * 2);
                    Some(usize::MAX)
                }
            }
            Policy::ChangePoints { points } => {
                if points.binary_search(&at).is_ok() {
                    Some(usize::MAX)
                } else {
                    None
                }
            }
            Policy::Replay { switches, next } => {
                if *next < switches.len() && switches[*next].at == at {
                    let to = switches[*next].to;
                    *next += 1;
                    Some(to)
                } else {
                    None
                }
            }
        };
        let to = match want {
            None => return false,
            Some(usize::MAX) => Self::pick_next(&mut g, tid),
            Some(t) => t,
        };
        if to == tid || !g.runnable.get(to).copied().unwrap_or(false) {
            return false;
        }
        g.schedule.push(Switch { at, from: tid, to });
        g.current = to;
        self.cvs[to].notify_one();
        let _g = self.wait_for(g, tid);
        true
    }

    /// The calling thread (baton holder) has no more work: the baton goes to somebody else for good.
    pub fn finish(&self, tid: usize) {
        let mut g = self.lock();
        g.runnable[tid] = false;
        let at = g.point;
        g.point += 1;
        let replayed = match &mut g.policy {
            Policy::Replay { switches, next } => {
                if *next < switches.len() && switches[*next].at == at {
                    let to = switches[*next].to;
                    *next += 1;
                    Some(to)
                } else {
                    None
                }
            }
            _ => None,
        };
        let to = match replayed {
            Some(t) if g.runnable.get(t).copied().unwrap_or(false) => t,
            _ => Self::pick_next(&mut g, tid),
        };
        if to != tid && g.runnable[to] {
            g.schedule.push(Switch { at, from: tid, to });
            g.current = to;
            self.cvs[to].notify_one();
        }
    }

    pub fn abort(&self) {
        let mut g = self.lock();
        g.aborted = true;
        for cv in &self.cvs {
            cv.notify_all();
        }
    }

    pub fn schedule(&self) -> Vec<Switch> {
        self.lock().schedule.clone()
    }

    pub fn points(&self) -> u64 {
        self.lock().point
    }
}
