//! Runs one evaluation of the real interpreter under a fault plan and audits the heap ledger.

use crate::alloc;
use crate::rng::Fold;
use crate::shadow;
use crate::sim::{self, CollectPlan, CrashState, Finding, Injected, RunStats, CTX};
use nederlang::object::{Error, Object, Type};
use nederlang::verif;
use std::cell::RefCell;
use std::collections::BTreeMap;
use std::panic::{catch_unwind, AssertUnwindSafe};

#[derive(Clone, Debug, PartialEq, Eq)]
pub enum Outcome {
    Ok(String),
    Err(String, String),
    Panic(String),
}

impl Outcome {
    pub fn render(&self) -> String {
        match self {
            Outcome::Ok(v) => format!("ok {}", v),
            Outcome::Err(k, m) => format!("err {}: {}", k, m),
            Outcome::Panic(l) => format!("panic {}", l),
        }
    }
    pub fn is_ok(&self) -> bool {
        matches!(self, Outcome::Ok(_))
    }
    pub fn kind(&self) -> String {
        match self {
            Outcome::Ok(_) => "ok".into(),
            Outcome::Err(k, _) => format!("err:{}", k),
            Outcome::Panic(_) => "panic".into(),
        }
    }
}

#[derive(Clone, Debug)]
pub struct Plan {
    pub crash_at: Option<u64>,
    /// cut the compilation short at this compilation step
    pub compile_crash_at: Option<u64>,
    pub collect: CollectPlan,
    pub budget: u64,
    pub alloc_mode: u8,
    pub audit_every_step: bool,
    pub exact: bool,
    pub track_survivors: bool,
    pub check_foreign: bool,
    pub stop_on_finding: bool,
    pub trace: bool,
    /// evaluate the text as a slice of a longer buffer (a tail chosen by the text's hash follows it
    /// in memory): a lexer that looks past the end of its input sees something else than in a fresh
    /// process
    pub tail: Option<u64>,
}

/// what may follow a program text in memory when `Plan::tail` is set
const TAILS: &[&str] = &["/ een", "= 1", "&& ja", "|| ja", "=", "/", "&", "|", ">", "<", "\n1", ";", "\"", "é", " "];

/// `nederlang::eval(src)`, optionally with `src` being the front part of a longer buffer
pub fn eval_text(src: &str, tail: Option<u64>) -> Result<Object, Error> {
    let salt = match tail {
        None => return nederlang::eval(src),
        Some(s) => s,
    };
    // in turn: the text's own last character once more, `= 1`, and one of the general tails
    let last: String = src.chars().last().map(|c| c.to_string()).unwrap_or_default();
    let mut f = crate::rng::Fold::new();
    f.str(src);
    let t: &str = match salt % 3 {
        0 if !last.is_empty() => last.as_str(),
        1 => "= 1",
        _ => TAILS[((f.0 ^ salt) % TAILS.len() as u64) as usize],
    };
    let mut buf = String::with_capacity(src.len() + t.len());
    buf.push_str(src);
    buf.push_str(t);
    nederlang::eval(&buf[..src.len()])
}

impl Plan {
    pub fn plain() -> Plan {
        Plan {
            crash_at: None,
            compile_crash_at: None,
            collect: CollectPlan::Shipped,
            budget: 200_000,
            alloc_mode: alloc::PLAIN,
            audit_every_step: false,
            exact: false,
            track_survivors: false,
            check_foreign: false,
            stop_on_finding: true,
            trace: false,
            tail: None,
        }
    }
}

#[derive(Clone, Debug)]
pub struct RunResult {
    pub outcome: Outcome,
    pub out: String,
    pub injected: Injected,
    pub findings: Vec<Finding>,
    pub stats: RunStats,
    pub log_hash: u64,
    pub steps: u64,
    pub compile_steps: u64,
    pub crash_state: Option<CrashState>,
    pub effects: u64,
    pub effect_steps: Vec<u64>,
    pub shapes: Vec<u64>,
    pub trace_lines: Vec<String>,
    /// number of distinct heap objects in the returned result graph
    pub result_objects: usize,
}

impl RunResult {
    /// value + output + error, the thing the relational oracles compare
    pub fn digest(&self) -> String {
        format!("{} | out={:?}", self.outcome.render(), self.out)
    }
}

thread_local! {
    static LAST_PANIC: RefCell<Option<String>> = const { RefCell::new(None) };
}

pub fn install_panic_hook() {
    std::panic::set_hook(Box::new(|info| {
        let _hg = alloc::in_hook();
        let loc = info
            .location()
            .map(|l| {
                let f = l.file();
                let f = match f.rfind("src/") {
                    Some(p) => &f[p..],
                    None => f,
                };
                format!("{}:{}", f, l.line())
            })
            .unwrap_or_else(|| "?".into());
        let msg = if let Some(s) = info.payload().downcast_ref::<&str>() {
            s.to_string()
        } else if let Some(s) = info.payload().downcast_ref::<String>() {
            s.clone()
        } else {
            "?".to_string()
        };
        let msg: String = msg.chars().take(120).collect();
        let _ = LAST_PANIC.try_with(|p| {
            if let Ok(mut p) = p.try_borrow_mut() {
                *p = Some(format!("{} [{}]", loc, msg.replace('\n', " ")));
            }
        });
    }));
}

pub fn take_panic() -> String {
    LAST_PANIC
        .with(|p| p.borrow_mut().take())
        .unwrap_or_else(|| "?".into())
}

pub fn error_parts(e: &Error) -> (String, String) {
    match e {
        Error::TypeError(m) => ("TypeError".into(), m.clone()),
        Error::SyntaxError(m) => ("SyntaxError".into(), m.clone()),
        Error::ReferenceError(m) => ("ReferenceError".into(), m.clone()),
        Error::IndexError(m) => ("IndexError".into(), m.clone()),
        Error::ArgumentError(m) => ("ArgumentError".into(), m.clone()),
    }
}

/// Strings are rendered from their bytes: a defective tree can hand out a `str` that is not UTF-8.
pub fn render_str(s: &str) -> String {
    let b = s.as_bytes();
    match std::str::from_utf8(b) {
        Ok(t) => format!("{:?}", t),
        Err(_) => format!("<invalid utf-8 {:02x?}>", &b[..b.len().min(48)]),
    }
}

fn render_float(f: f64) -> String {
    if f.is_nan() {
        "NaN".to_string()
    } else {
        format!("{:?}/{:016x}", f, f.to_bits())
    }
}

/// Structural rendering of a value through the public accessors, with first-visit numbering for
/// shared and cyclic arrays. Liveness is checked in the shadow table before every dereference;
/// released objects are rendered as such and reported in `dead`.
pub fn render_value(v: Object, dead: &mut Vec<String>) -> String {
    let _g = sim::enter_harness();
    let sh = shadow::lock();
    let mut out = String::new();
    let mut ids: BTreeMap<usize, usize> = BTreeMap::new();
    // iterative rendering to stay off the native stack
    enum It {
        Val(Object),
        Text(&'static str),
    }
    let mut stack = vec![It::Val(v)];
    let mut guard = 0usize;
    while let Some(it) = stack.pop() {
        guard += 1;
        if guard > 2_000_000 {
            out.push_str("<too large>");
            break;
        }
        match it {
            It::Text(t) => out.push_str(t),
            It::Val(o) => match o.tag() {
                Type::Null => out.push_str("null"),
                Type::Bool => out.push_str(if o.as_bool() { "ja" } else { "nee" }),
                Type::Int => out.push_str(&o.as_int().to_string()),
                Type::Function => {
                    let [ip, n] = o.as_function();
                    out.push_str(&format!("fn({},{})", ip, n));
                }
                _ => {
                    let t = o.tag() as u8;
                    let addr = verif::address(o);
                    let ok = matches!(sh.get(addr), Some(e) if e.alive && e.kind == t);
                    if !ok {
                        let d = sh.describe(addr);
                        out.push_str(&format!("<invalid {}>", shadow::kind_name(t)));
                        dead.push(d);
                        continue;
                    }
                    match t {
                        shadow::KIND_FLOAT => out.push_str(&render_float(o.as_f64())),
                        shadow::KIND_STRING => out.push_str(&render_str(o.as_str())),
                        _ => {
                            if let Some(ix) = ids.get(&addr) {
                                out.push_str(&format!("^#{}", ix));
                                continue;
                            }
                            let ix = ids.len();
                            ids.insert(addr, ix);
                            out.push_str(&format!("#{}[", ix));
                            let vec = o.as_vec();
                            stack.push(It::Text("]"));
                            for (i, el) in vec.iter().enumerate().rev() {
                                stack.push(It::Val(*el));
                                if i > 0 {
                                    stack.push(It::Text(", "));
                                }
                            }
                        }
                    }
                }
            },
        }
    }
    out
}

/// Every distinct live heap object reachable from `v`, in first-visit order
pub struct Graph {
    pub order: Vec<(usize, Object)>,
    pub set: std::collections::BTreeSet<usize>,
}

impl Graph {
    pub fn len(&self) -> usize {
        self.order.len()
    }
    pub fn contains_key(&self, a: &usize) -> bool {
        self.set.contains(a)
    }
}

pub fn graph_of(v: Object) -> Graph {
    let _g = sim::enter_harness();
    let sh = shadow::lock();
    let order = sim::collect_objects_ordered(&sh, &[&[v]]);
    let set = order.iter().map(|(a, _)| *a).collect();
    Graph { order, set }
}

/// Releases each object once, as a caller of `eval` would.
pub fn release_graph(objs: &Graph) {
    let _g = sim::enter_harness();
    for (_, o) in objs.order.iter() {
        o.free();
    }
}

pub fn begin_run(plan: &Plan, eval_id: u64, thread_id: usize, sched: Option<std::sync::Arc<crate::sched::Sched>>) {
    CTX.with(|c| {
        let mut ctx = c.borrow_mut();
        *ctx = sim::Ctx::new();
        ctx.active = true;
        ctx.eval_id = eval_id;
        ctx.budget = plan.budget;
        ctx.crash_at = plan.crash_at;
        ctx.compile_crash_at = plan.compile_crash_at;
        ctx.collect = plan.collect.clone();
        ctx.audit_every_step = plan.audit_every_step;
        ctx.exact = plan.exact;
        ctx.track_survivors = plan.track_survivors;
        ctx.check_foreign = plan.check_foreign;
        ctx.stop_on_finding = plan.stop_on_finding;
        ctx.trace = plan.trace;
        ctx.thread_id = thread_id;
        ctx.sched = sched;
    });
}

pub fn classify(result: std::thread::Result<Result<Object, Error>>) -> (Outcome, Option<Object>) {
    match result {
        Ok(Ok(v)) => (Outcome::Ok(String::new()), Some(v)),
        Ok(Err(e)) => {
            let (k, m) = error_parts(&e);
            (Outcome::Err(k, m), None)
        }
        Err(_) => (Outcome::Panic(take_panic()), None),
    }
}

/// Evaluates `src` with `nederlang::eval` exactly as a caller would, under `plan`; digests and
/// releases the result; audits the ledger. `reset_all`: forget the whole shadow table afterwards
/// (single-evaluation scenarios) instead of only this evaluation's entries.
pub fn run_eval(src: &str, plan: &Plan, eval_id: u64, reset_all: bool) -> RunResult {
    begin_run(plan, eval_id, 0, None);
    sim::marker("EVAL+");
    alloc::set_mode(plan.alloc_mode);
    let r = catch_unwind(AssertUnwindSafe(|| eval_text(src, plan.tail)));
    alloc::reset_mode();
    sim::marker("EVAL-");
    finish_run(r, eval_id, reset_all, true)
}

pub fn finish_run(
    r: std::thread::Result<Result<Object, Error>>,
    eval_id: u64,
    reset_all: bool,
    release_result: bool,
) -> RunResult {
    CTX.with(|c| {
        let mut ctx = c.borrow_mut();
        ctx.active = false;
        ctx.in_gc = false;
        ctx.sched = None;
    });
    let (mut outcome, value) = classify(r);
    let mut extra: Vec<Finding> = Vec::new();
    let mut result_objects = 0;
    if let Some(v) = value {
        let mut dead = Vec::new();
        let text = render_value(v, &mut dead);
        outcome = Outcome::Ok(text);
        for d in dead {
            extra.push(Finding {
                class: "result-invalid".into(),
                key: d.split('#').next().unwrap_or("?").to_string(),
                detail: format!("the returned value contains {} which is not allocated any more", d),
            });
        }
        let graph = graph_of(v);
        result_objects = graph.len();
        // everything this evaluation still holds must be part of the result
        {
            let sh = shadow::lock();
            let stray: Vec<usize> = sh
                .alive_of(eval_id)
                .into_iter()
                .filter(|a| !graph.contains_key(a))
                .collect();
            if !stray.is_empty() {
                let kinds: std::collections::BTreeSet<&str> = stray
                    .iter()
                    .map(|a| shadow::kind_name(sh.get(*a).unwrap().kind))
                    .collect();
                let desc: Vec<String> = stray.iter().take(6).map(|a| sh.describe(*a)).collect();
                extra.push(Finding {
                    class: "leak".into(),
                    key: format!("ok:{}", kinds.into_iter().collect::<Vec<_>>().join("+")),
                    detail: format!(
                        "evaluation returned Ok but {} object(s) outside the result are still allocated: {}",
                        stray.len(),
                        desc.join(", ")
                    ),
                });
            }
        }
        if release_result {
            release_graph(&graph);
            let sh = shadow::lock();
            let left = sh.alive_of(eval_id);
            let left: Vec<usize> = left.into_iter().filter(|a| !graph.contains_key(a) || sh.is_alive(*a)).collect();
            let left_in_graph: Vec<&usize> = left.iter().filter(|a| graph.contains_key(a)).collect();
            if !left_in_graph.is_empty() {
                extra.push(Finding {
                    class: "result-unreleasable".into(),
                    key: "graph".into(),
                    detail: format!("{} result object(s) still allocated after the caller released each once", left_in_graph.len()),
                });
            }
        }
    } else if matches!(outcome, Outcome::Err(_, _)) {
        let sh = shadow::lock();
        let stray = sh.alive_of(eval_id);
        if !stray.is_empty() {
            let kinds: std::collections::BTreeSet<&str> = stray
                .iter()
                .map(|a| shadow::kind_name(sh.get(*a).unwrap().kind))
                .collect();
            let desc: Vec<String> = stray.iter().take(6).map(|a| sh.describe(*a)).collect();
            extra.push(Finding {
                class: "leak".into(),
                key: format!("err:{}", kinds.into_iter().collect::<Vec<_>>().join("+")),
                detail: format!(
                    "evaluation returned an error but {} object(s) are still allocated: {}",
                    stray.len(),
                    desc.join(", ")
                ),
            });
        }
    }
    let mut res = CTX.with(|c| {
        let mut ctx = c.borrow_mut();
        RunResult {
            outcome,
            out: std::mem::take(&mut ctx.out),
            injected: ctx.injected.clone(),
            findings: std::mem::take(&mut ctx.findings),
            stats: ctx.stats.clone(),
            log_hash: ctx.fold.0,
            steps: ctx.step,
            compile_steps: ctx.compile_step,
            crash_state: ctx.crash_state.take(),
            effects: ctx.effects,
            effect_steps: std::mem::take(&mut ctx.effect_steps),
            shapes: ctx.shapes.iter().cloned().collect(),
            trace_lines: std::mem::take(&mut ctx.trace_lines),
            result_objects,
        }
    });
    // findings recorded by hooks while the harness released the result (double release by caller)
    res.findings.extend(extra);
    {
        let mut sh = shadow::lock();
        if reset_all {
            sh.reset();
        } else {
            sh.reset_owner(eval_id);
        }
    }
    alloc::flush_parked();
    let mut f = Fold(res.log_hash);
    f.str(&res.digest());
    res.log_hash = f.0;
    res
}

// ---------------------------------------------------------------------------------------------
// deferred settlement: the value of an evaluation is digested and released later, possibly by
// another thread (exercises the hand-written Send/Sync of Object)

pub struct Pending {
    pub eval_id: u64,
    pub value: Object,
}

pub fn finish_run_defer(r: std::thread::Result<Result<Object, Error>>, eval_id: u64) -> (RunResult, Option<Pending>) {
    CTX.with(|c| {
        let mut ctx = c.borrow_mut();
        ctx.active = false;
        ctx.in_gc = false;
        ctx.sched = None;
    });
    let (outcome, value) = classify(r);
    let res = CTX.with(|c| {
        let mut ctx = c.borrow_mut();
        RunResult {
            outcome,
            out: std::mem::take(&mut ctx.out),
            injected: ctx.injected.clone(),
            findings: std::mem::take(&mut ctx.findings),
            stats: ctx.stats.clone(),
            log_hash: ctx.fold.0,
            steps: ctx.step,
            compile_steps: ctx.compile_step,
            crash_state: ctx.crash_state.take(),
            effects: ctx.effects,
            effect_steps: std::mem::take(&mut ctx.effect_steps),
            shapes: ctx.shapes.iter().cloned().collect(),
            trace_lines: std::mem::take(&mut ctx.trace_lines),
            result_objects: 0,
        }
    });
    match value {
        Some(v) => (res, Some(Pending { eval_id, value: v })),
        None => {
            let mut sh = shadow::lock();
            sh.reset_owner(eval_id);
            drop(sh);
            alloc::flush_parked();
            (res, None)
        }
    }
}

/// Digest, release and forget the value of an evaluation (on whichever thread calls this).
pub fn settle(p: Pending) -> (String, Vec<Finding>) {
    let mut findings = Vec::new();
    let mut dead = Vec::new();
    let text = render_value(p.value, &mut dead);
    for d in dead {
        findings.push(Finding {
            class: "result-invalid".into(),
            key: d.split('#').next().unwrap_or("?").to_string(),
            detail: format!("the returned value contains {} which is not allocated any more", d),
        });
    }
    let graph = graph_of(p.value);
    release_graph(&graph);
    let hook = CTX.with(|c| std::mem::take(&mut c.borrow_mut().findings));
    findings.extend(hook);
    let mut sh = shadow::lock();
    sh.reset_owner(p.eval_id);
    drop(sh);
    alloc::flush_parked();
    (text, findings)
}
