//! The simulator core: per-thread run context, the hook table installed into the interpreter,
//! the step seam (scheduling point, crash point, collection point, budget, guard rails) and the
//! in-run audits (liveness at every dereference, reachability after every collection).

use crate::rng::Fold;
use crate::shadow::{self, ReleaseCheck, Shadow, KIND_ARRAY, KIND_FLOAT, KIND_STRING};
use nederlang::object::{Object, Type};
use nederlang::verif::{self, GcEvent, StepAction, StepInfo, GC};
use std::cell::{Cell, RefCell};
use std::collections::{BTreeMap, BTreeSet};
use std::io::Write;
use std::sync::atomic::{AtomicBool, Ordering};
use std::sync::{Arc, OnceLock};

// ---------------------------------------------------------------------------------------------
// opcode table (taken from the crate itself: the harness hard-codes no numbering)

pub struct OpInfo {
    pub name: String,
    pub widths: Vec<usize>,
    pub len: usize,
}

pub fn optable() -> &'static Vec<OpInfo> {
    static T: OnceLock<Vec<OpInfo>> = OnceLock::new();
    T.get_or_init(|| {
        let mut v = Vec::new();
        for b in 0..verif::OPCODE_COUNT {
            let (name, widths) = verif::opcode_info(b).unwrap();
            let len = 1 + widths.iter().sum::<usize>();
            v.push(OpInfo { name, widths, len })
        }
        v
    })
}

pub fn op_by_name(name: &str) -> u8 {
    optable()
        .iter()
        .position(|o| o.name == name)
        .map(|p| p as u8)
        .unwrap_or(255)
}

pub fn op_name(b: u8) -> &'static str {
    optable()
        .get(b as usize)
        .map(|o| o.name.as_str())
        .unwrap_or("?")
}

struct Ops {
    ret: u8,
    ret_value: u8,
    call: u8,
    call_builtin: u8,
    set_global: u8,
    index_set: u8,
    array: u8,
    konst: u8,
    jump: u8,
    jump_if_false: u8,
    pops: Vec<i32>, // -1: depends on operand
}

fn ops() -> &'static Ops {
    static O: OnceLock<Ops> = OnceLock::new();
    O.get_or_init(|| {
        let pops = optable()
            .iter()
            .map(|o| match o.name.as_str() {
                "Pop" | "Not" | "Negate" | "JumpIfFalse" | "ReturnValue" | "SetLocal"
                | "SetGlobal" => 1,
                "Add" | "Subtract" | "Divide" | "Multiply" | "Gt" | "Gte" | "Lt" | "Lte" | "Eq"
                | "Neq" | "And" | "Or" | "Modulo" | "IndexGet" => 2,
                "IndexSet" => 3,
                "Call" | "CallBuiltin" | "Array" => -1,
                _ => 0,
            })
            .collect();
        Ops {
            ret: op_by_name("Return"),
            ret_value: op_by_name("ReturnValue"),
            call: op_by_name("Call"),
            call_builtin: op_by_name("CallBuiltin"),
            set_global: op_by_name("SetGlobal"),
            index_set: op_by_name("IndexSet"),
            array: op_by_name("Array"),
            konst: op_by_name("Const"),
            jump: op_by_name("Jump"),
            jump_if_false: op_by_name("JumpIfFalse"),
            pops,
        }
    })
}

// ---------------------------------------------------------------------------------------------
// findings

#[derive(Clone, Debug)]
pub struct Finding {
    /// violation class, e.g. "use-after-release"
    pub class: String,
    /// stable key (no ids, addresses or step numbers), e.g. "string@IndexGet"
    pub key: String,
    /// human detail with ids and steps
    pub detail: String,
}

#[derive(Clone, Debug, PartialEq)]
pub enum Injected {
    None,
    Crash,
    /// the compilation was cut short at the planned compilation step
    CompileCrash,
    Budget,
    Guard(String),
    /// the run was stopped because a hook recorded a violation
    Stop,
}

#[derive(Clone, Debug, PartialEq)]
pub enum CollectPlan {
    Shipped,
    Points(Vec<u64>),
    Every,
}

impl CollectPlan {
    fn wants(&self, k: u64) -> bool {
        match self {
            CollectPlan::Shipped => false,
            CollectPlan::Every => true,
            CollectPlan::Points(p) => p.binary_search(&k).is_ok(),
        }
    }
    pub fn name(&self) -> &'static str {
        match self {
            CollectPlan::Shipped => "shipped",
            CollectPlan::Every => "every-step",
            CollectPlan::Points(_) => "extra-points",
        }
    }
}

#[derive(Clone, Debug, Default)]
pub struct RunStats {
    pub steps: u64,
    pub collections: u64,
    pub extra_collections: u64,
    pub collections_with_live_heap: u64,
    pub audits: u64,
    pub max_frames: usize,
    pub max_stack: usize,
    pub allocs: u64,
    pub releases: u64,
    pub switches: u64,
    pub max_reach: usize,
    pub cyclic_at_collection: u64,
    pub shared_at_collection: u64,
    pub freed_by_collections: u64,
}

#[derive(Clone, Debug, Default)]
pub struct CrashState {
    pub opcode: u8,
    pub frames: usize,
    pub stack: usize,
    pub live: usize,
    pub live_runtime: usize,
    pub collections: u64,
    pub effects: u64,
}

#[derive(Clone, Debug, PartialEq, Eq, PartialOrd, Ord)]
pub enum Content {
    F(u64),
    S(String),
    A(Vec<(u8, u64)>),
}

pub struct Ctx {
    pub active: bool,
    pub eval_id: u64,
    pub step: u64,
    pub budget: u64,
    pub crash_at: Option<u64>,
    pub collect: CollectPlan,
    pub audit_every_step: bool,
    /// after a collection: everything this evaluation still holds must be reachable (C04)
    pub exact: bool,
    pub track_survivors: bool,
    pub check_foreign: bool,
    /// end the run (through the injected-failure exit) as soon as a hook records a violation
    pub stop_on_finding: bool,
    pub out: String,
    pub fold: Fold,
    pub findings: Vec<Finding>,
    pub stop: bool,
    pub injected: Injected,
    pub pending_audit: bool,
    pub in_gc: bool,
    pub snapshot: Option<BTreeMap<usize, Content>>,
    pub effects: u64,
    pub effect_steps: Vec<u64>,
    pub stats: RunStats,
    pub crash_state: Option<CrashState>,
    pub cur_op: u8,
    pub shapes: BTreeSet<u64>,
    pub sched: Option<Arc<crate::sched::Sched>>,
    pub thread_id: usize,
    pub trace: bool,
    pub trace_lines: Vec<String>,
    pub alive_before_gc: usize,
    /// frame depth at the first instruction of this run (top level of the line)
    pub base_frames: usize,
    /// keep a copy of the global variables as of the last instruction boundary (session engines:
    /// the caller decides from it which handed-out values no variable refers to any more)
    pub keep_globals: bool,
    pub last_globals: Vec<Object>,
    /// compilation steps seen so far in this run (statements and expressions, any depth)
    pub compile_step: u64,
    pub compile_crash_at: Option<u64>,
}

impl Ctx {
    pub fn new() -> Ctx {
        Ctx {
            active: false,
            eval_id: 0,
            step: 0,
            budget: 200_000,
            crash_at: None,
            collect: CollectPlan::Shipped,
            audit_every_step: false,
            exact: false,
            track_survivors: false,
            check_foreign: false,
            stop_on_finding: true,
            out: String::new(),
            fold: Fold::new(),
            findings: Vec::new(),
            stop: false,
            injected: Injected::None,
            pending_audit: false,
            in_gc: false,
            snapshot: None,
            effects: 0,
            effect_steps: Vec::new(),
            stats: RunStats::default(),
            crash_state: None,
            cur_op: 255,
            shapes: BTreeSet::new(),
            sched: None,
            thread_id: 0,
            trace: false,
            trace_lines: Vec::new(),
            alive_before_gc: 0,
            base_frames: 0,
            keep_globals: false,
            last_globals: Vec::new(),
            compile_step: 0,
            compile_crash_at: None,
        }
    }

    fn finding(&mut self, class: &str, key: String, detail: String) {
        if self.findings.len() < 8 {
            self.findings.push(Finding {
                class: class.to_string(),
                key,
                detail,
            });
        }
    }
}

thread_local! {
    pub static CTX: RefCell<Ctx> = RefCell::new(Ctx::new());
    static IN_HARNESS: Cell<bool> = const { Cell::new(false) };
}

/// Set while harness code (audits, digests, result release) touches interpreter objects itself.
pub struct HarnessGuard(bool);

pub fn enter_harness() -> HarnessGuard {
    let prev = IN_HARNESS.with(|c| c.replace(true));
    HarnessGuard(prev)
}

impl Drop for HarnessGuard {
    fn drop(&mut self) {
        IN_HARNESS.with(|c| c.set(self.0));
    }
}

fn in_harness() -> bool {
    IN_HARNESS.with(|c| c.get())
}

/// Phase markers for attributing a worker death (trace mode only): synchronous writes to stderr.
pub static TRACE_MARKERS: AtomicBool = AtomicBool::new(false);

pub fn marker(s: &str) {
    if TRACE_MARKERS.load(Ordering::Relaxed) {
        let _ = std::io::stderr().write_all(format!("@@{}\n", s).as_bytes());
    }
}

// ---------------------------------------------------------------------------------------------
// object helpers

pub fn obj_key(o: Object) -> (u8, u64) {
    let tag = o.tag() as u8;
    let payload = match o.tag() {
        Type::Null => 0,
        Type::Int => o.as_int() as u64,
        Type::Bool => o.as_bool() as u64,
        Type::Function => {
            let [ip, n] = o.as_function();
            ((ip as u64) << 16) | n as u64
        }
        _ => verif::address(o) as u64,
    };
    (tag, payload)
}

pub struct Walk {
    /// addresses of live heap objects reachable from the roots, in first-visit order
    pub order: Vec<usize>,
    pub reach: BTreeSet<usize>,
    /// reachable but released: (address, path)
    pub dead: Vec<(usize, String)>,
    pub shape: u64,
    pub cyclic: bool,
    pub shared: bool,
}

/// Walks the object graph from the given roots through the public accessors. Liveness is checked
/// in the shadow table *before* an object is dereferenced. Caller must hold a HarnessGuard.
pub fn walk(sh: &Shadow, roots: &[(&str, &[Object])]) -> Walk {
    let mut w = Walk {
        order: Vec::new(),
        reach: BTreeSet::new(),
        dead: Vec::new(),
        shape: 0,
        cyclic: false,
        shared: false,
    };
    let mut fold = Fold::new();
    let mut index: BTreeMap<usize, usize> = BTreeMap::new();
    // explicit stack of (object, path, ancestors-depth marker)
    let mut on_path: BTreeSet<usize> = BTreeSet::new();
    enum Item {
        Visit(Object, String),
        Leave(usize),
    }
    let mut stack: Vec<Item> = Vec::new();
    for (rname, slice) in roots.iter().rev() {
        for (i, o) in slice.iter().enumerate().rev() {
            if o.is_heap_allocated() {
                stack.push(Item::Visit(*o, format!("{}[{}]", rname, i)));
            }
        }
    }
    while let Some(item) = stack.pop() {
        match item {
            Item::Leave(a) => {
                on_path.remove(&a);
            }
            Item::Visit(o, path) => {
                let addr = verif::address(o);
                let tag = o.tag() as u8;
                if let Some(ix) = index.get(&addr) {
                    fold.u64(0xF000 + *ix as u64);
                    w.shared = true;
                    if on_path.contains(&addr) {
                        w.cyclic = true;
                    }
                    continue;
                }
                match sh.get(addr) {
                    Some(e) if e.alive && e.kind == tag => {}
                    _ => {
                        if !w.dead.iter().any(|(a, _)| *a == addr) {
                            w.dead.push((addr, path));
                        }
                        fold.u64(0xDEAD);
                        continue;
                    }
                }
                let ix = w.order.len();
                index.insert(addr, ix);
                w.order.push(addr);
                w.reach.insert(addr);
                fold.u64(tag as u64);
                if tag == KIND_ARRAY {
                    let v = o.as_vec();
                    fold.u64(v.len() as u64);
                    on_path.insert(addr);
                    stack.push(Item::Leave(addr));
                    for (i, el) in v.iter().enumerate().rev() {
                        if el.is_heap_allocated() {
                            stack.push(Item::Visit(*el, format!("{}[{}]", path, i)));
                        }
                    }
                    for el in v.iter() {
                        fold.u64(el.tag() as u64);
                    }
                }
            }
        }
    }
    w.shape = fold.0;
    w
}

/// Content of a live heap object (caller holds a HarnessGuard and has checked liveness).
pub fn content_of(o: Object) -> Content {
    match o.tag() {
        Type::Float => Content::F(o.as_f64().to_bits()),
        Type::String => Content::S(String::from_utf8_lossy(o.as_str().as_bytes()).to_string()),
        Type::Array => Content::A(o.as_vec().iter().map(|e| obj_key(*e)).collect()),
        _ => Content::F(0),
    }
}

fn snapshot(sh: &Shadow, info: &StepInfo) -> BTreeMap<usize, Content> {
    let _g = enter_harness();
    let last = [info.last_value];
    let w = walk(
        sh,
        &[
            ("stack", info.stack),
            ("globals", info.globals),
            ("constants", info.constants),
            ("last", &last),
        ],
    );
    let mut m = BTreeMap::new();
    // re-walk objects by address: we need Objects, so collect them again from roots
    let mut objs: BTreeMap<usize, Object> = BTreeMap::new();
    collect_objects(sh, &[info.stack, info.globals, info.constants, &last], &mut objs);
    for a in w.order {
        if let Some(o) = objs.get(&a) {
            m.insert(a, content_of(*o));
        }
    }
    m
}

/// Address -> Object handle for every live object reachable from the roots.
pub fn collect_objects(sh: &Shadow, roots: &[&[Object]], out: &mut BTreeMap<usize, Object>) {
    for (a, o) in collect_objects_ordered(sh, roots) {
        out.insert(a, o);
    }
}

/// Every live object reachable from the roots, in a deterministic (first-visit) order that does
/// not depend on addresses.
pub fn collect_objects_ordered(sh: &Shadow, roots: &[&[Object]]) -> Vec<(usize, Object)> {
    let mut seen: BTreeSet<usize> = BTreeSet::new();
    let mut order: Vec<(usize, Object)> = Vec::new();
    let mut stack: Vec<Object> = Vec::new();
    for r in roots.iter().rev() {
        for o in r.iter().rev() {
            if o.is_heap_allocated() {
                stack.push(*o);
            }
        }
    }
    while let Some(o) = stack.pop() {
        let a = verif::address(o);
        if seen.contains(&a) {
            continue;
        }
        match sh.get(a) {
            Some(e) if e.alive && e.kind == o.tag() as u8 => {}
            _ => continue,
        }
        seen.insert(a);
        order.push((a, o));
        if o.tag() == Type::Array {
            for el in o.as_vec().iter().rev() {
                if el.is_heap_allocated() {
                    stack.push(*el);
                }
            }
        }
    }
    order
}

// ---------------------------------------------------------------------------------------------
// guard rails: what the VM's unchecked fast paths assume, checked before the instruction runs

fn read_u16(code: &[u8], at: usize) -> usize {
    code[at] as usize | (code[at + 1] as usize) << 8
}

fn guard(info: &StepInfo) -> Result<u8, String> {
    let code = info.code;
    if info.ip >= code.len() {
        return Err("ip-out-of-code".into());
    }
    let b = code[info.ip];
    let t = optable();
    if b as usize >= t.len() {
        return Err("invalid-opcode".into());
    }
    let oi = &t[b as usize];
    if info.ip + oi.len > code.len() {
        return Err("operands-out-of-code".into());
    }
    let o = ops();
    let need: usize = match o.pops[b as usize] {
        -1 => {
            if b == o.call {
                code[info.ip + 1] as usize + 1
            } else if b == o.call_builtin {
                if code[info.ip + 1] >= verif::BUILTIN_COUNT {
                    return Err("invalid-builtin".into());
                }
                code[info.ip + 2] as usize
            } else {
                read_u16(code, info.ip + 1)
            }
        }
        n => n as usize,
    };
    if info.stack.len() < need {
        return Err(format!("stack-underflow@{}", oi.name));
    }
    if b == o.call {
        let callee = info.stack[info.stack.len() - 1];
        if callee.tag() == Type::Function {
            let [fip, nlocals] = callee.as_function();
            let nargs = code[info.ip + 1] as u32;
            if nlocals < nargs {
                return Err("call-arity".into());
            }
            if fip as usize >= code.len() {
                return Err("call-target-out-of-code".into());
            }
            if info.stack.len() + (nlocals - nargs) as usize > 60_000 {
                return Err("stack-limit".into());
            }
        }
    } else if b == o.konst {
        if read_u16(code, info.ip + 1) >= info.constants.len() {
            return Err("constant-index".into());
        }
    } else if b == o.jump || b == o.jump_if_false {
        if read_u16(code, info.ip + 1) >= code.len() {
            return Err("jump-target-out-of-code".into());
        }
    } else if oi.widths.len() == 2 && oi.widths[0] == 2 && oi.widths[1] == 2 {
        // fused local/constant opcodes
        if read_u16(code, info.ip + 3) >= info.constants.len() {
            return Err("constant-index".into());
        }
    }
    Ok(b)
}

// ---------------------------------------------------------------------------------------------
// audits

fn audit(ctx: &mut Ctx, info: &StepInfo, post_collection: bool) {
    let _g = enter_harness();
    let sh = shadow::lock();
    let last = [info.last_value];
    let w = walk(
        &sh,
        &[
            ("stack", info.stack),
            ("globals", info.globals),
            ("constants", info.constants),
            ("last", &last),
        ],
    );
    ctx.stats.audits += 1;
    ctx.stats.max_reach = ctx.stats.max_reach.max(w.reach.len());
    let opn = op_name(ctx.cur_op);
    for (addr, path) in &w.dead {
        let d = sh.describe(*addr);
        let kind = sh.get(*addr).map(|e| shadow::kind_name(e.kind)).unwrap_or("unknown");
        ctx.finding(
            "reachable-reclaimed",
            format!("{}@after:{}", kind, opn),
            format!(
                "{} reachable through {} is not allocated any more (step {}, after {})",
                d, path, ctx.step, opn
            ),
        );
        ctx.stop = ctx.stop_on_finding;
    }
    if post_collection {
        if !w.reach.is_empty() {
            ctx.stats.collections_with_live_heap += 1;
        }
        if w.cyclic {
            ctx.stats.cyclic_at_collection += 1;
        }
        if w.shared {
            ctx.stats.shared_at_collection += 1;
        }
        let mut f = Fold(w.shape);
        f.u64(ctx.cur_op as u64);
        ctx.shapes.insert(f.0);
        let alive_now = sh.alive_of(ctx.eval_id).len();
        if ctx.alive_before_gc > alive_now {
            ctx.stats.freed_by_collections += (ctx.alive_before_gc - alive_now) as u64;
        }
        if ctx.exact {
            let mut extra = Vec::new();
            for a in sh.alive_of(ctx.eval_id) {
                if !w.reach.contains(&a) {
                    extra.push(a);
                }
            }
            if !extra.is_empty() {
                let kinds: BTreeSet<&str> = extra
                    .iter()
                    .map(|a| shadow::kind_name(sh.get(*a).unwrap().kind))
                    .collect();
                let desc: Vec<String> = extra.iter().take(6).map(|a| sh.describe(*a)).collect();
                ctx.finding(
                    "unreachable-retained",
                    format!("{}@after:{}", kinds.into_iter().collect::<Vec<_>>().join("+"), opn),
                    format!(
                        "after the collection at step {} ({}) {} object(s) are still allocated but unreachable from the roots: {}",
                        ctx.step,
                        opn,
                        extra.len(),
                        desc.join(", ")
                    ),
                );
            }
        }
        if let Some(snap) = ctx.snapshot.take() {
            let objs = collect_objects_ordered(&sh, &[info.stack, info.globals, info.constants, &last]);
            for (a, o) in objs.iter() {
                if let Some(before) = snap.get(a) {
                    let now = content_of(*o);
                    if &now != before {
                        ctx.finding(
                            "survivor-changed",
                            format!("{}@after:{}", shadow::kind_name(o.tag() as u8), opn),
                            format!(
                                "{} changed across the collection at step {}: {:?} -> {:?}",
                                sh.describe(*a),
                                ctx.step,
                                before,
                                now
                            ),
                        );
                        ctx.stop = ctx.stop_on_finding;
                    }
                }
            }
        }
    }
}

// ---------------------------------------------------------------------------------------------
// hooks

fn h_step(info: &StepInfo) -> StepAction {
    let _hg = crate::alloc::in_hook();
    if in_harness() {
        return StepAction::Continue;
    }
    CTX.with(|c| {
        let mut ctx = c.borrow_mut();
        if !ctx.active {
            return StepAction::Continue;
        }
        step_inner(&mut ctx, info)
    })
}

fn fail(ctx: &mut Ctx, why: Injected) -> StepAction {
    if ctx.injected == Injected::None {
        ctx.injected = why;
    }
    StepAction::Fail
}

fn step_inner(ctx: &mut Ctx, info: &StepInfo) -> StepAction {
    let o = ops();
    if info.after_collect {
        ctx.stats.extra_collections += 1;
        audit(ctx, info, true);
        ctx.pending_audit = false;
        if ctx.stop {
            return fail(ctx, Injected::Stop);
        }
        return proceed(ctx, info);
    }

    // scheduling point (sim-threads)
    if let Some(s) = ctx.sched.clone() {
        if s.maybe_switch(ctx.thread_id) {
            ctx.stats.switches += 1;
        }
    }

    let k = ctx.step;
    ctx.step += 1;
    ctx.stats.steps += 1;
    if k >= ctx.budget {
        return fail(ctx, Injected::Budget);
    }
    let b = match guard(info) {
        Ok(b) => b,
        Err(kind) => {
            ctx.fold.u64(0x6A);
            return fail(ctx, Injected::Guard(kind));
        }
    };
    if ctx.keep_globals {
        ctx.last_globals.clear();
        ctx.last_globals.extend_from_slice(info.globals);
    }
    if ctx.pending_audit {
        // a shipped collection ran inside the previous instruction
        ctx.pending_audit = false;
        audit(ctx, info, true);
    } else if ctx.audit_every_step {
        audit(ctx, info, false);
    }
    if ctx.stop {
        return fail(ctx, Injected::Stop);
    }
    ctx.cur_op = b;
    if ctx.crash_at == Some(k) {
        let (live, live_runtime) = {
            let sh = shadow::lock();
            (sh.alive_of(ctx.eval_id).len(), sh.alive_runtime_of(ctx.eval_id))
        };
        ctx.crash_state = Some(CrashState {
            opcode: b,
            frames: info.frames,
            stack: info.stack.len(),
            live,
            live_runtime,
            collections: ctx.stats.collections,
            effects: ctx.effects,
        });
        ctx.fold.u64(0xC4A5);
        return fail(ctx, Injected::Crash);
    }
    if ctx.collect.wants(k) {
        if ctx.track_survivors {
            let sh = shadow::lock();
            ctx.snapshot = Some(snapshot(&sh, info));
        }
        ctx.alive_before_gc = shadow::lock().alive_of(ctx.eval_id).len();
        ctx.fold.u64(0xC011);
        return StepAction::Collect;
    }
    let _ = o;
    proceed(ctx, info)
}

fn proceed(ctx: &mut Ctx, info: &StepInfo) -> StepAction {
    let o = ops();
    let b = info.code[info.ip];
    ctx.cur_op = b;
    if b == o.ret || b == o.ret_value {
        if ctx.track_survivors {
            let sh = shadow::lock();
            ctx.snapshot = Some(snapshot(&sh, info));
        }
        ctx.alive_before_gc = shadow::lock().alive_of(ctx.eval_id).len();
    }
    if ctx.base_frames == 0 {
        ctx.base_frames = info.frames;
    }
    if info.frames == ctx.base_frames && (b == o.set_global || b == o.index_set) {
        ctx.effects += 1;
        ctx.effect_steps.push(ctx.step - 1);
    }
    let _ = o.array;
    ctx.stats.max_frames = ctx.stats.max_frames.max(info.frames);
    ctx.stats.max_stack = ctx.stats.max_stack.max(info.stack.len());
    ctx.fold.u64(
        (b as u64) | (info.stack.len() as u64) << 8 | (info.frames as u64) << 32 | (info.ip as u64) << 44,
    );
    if ctx.trace {
        ctx.trace_lines.push(format!(
            "step {:5} t{} ip {:4} {:<18} stack {:3} frames {}",
            ctx.step - 1,
            ctx.thread_id,
            info.ip,
            op_name(b),
            info.stack.len(),
            info.frames
        ));
    }
    StepAction::Continue
}

fn h_alloc(addr: usize, kind: u8) {
    let _hg = crate::alloc::in_hook();
    let r = CTX.try_with(|c| {
        let mut ctx = match c.try_borrow_mut() {
            Ok(c) => c,
            Err(_) => return,
        };
        let mut sh = shadow::lock();
        let (owner, step) = (ctx.eval_id, ctx.step);
        match sh.on_alloc(addr, kind, owner, step) {
            Ok(id) => {
                ctx.stats.allocs += 1;
                ctx.fold.u64(0xA110C000 | kind as u64);
                ctx.fold.u64(id);
                if ctx.trace {
                    ctx.trace_lines
                        .push(format!("        alloc {}#{}", shadow::kind_name(kind), id));
                }
            }
            Err(live) => {
                ctx.finding(
                    "harness:alloc-at-live-address",
                    "alloc".into(),
                    format!("allocator returned the address of live object #{}", live),
                );
            }
        }
    });
    let _ = r;
}

fn h_pre_destroy(addr: usize, kind: u8) -> bool {
    let _hg = crate::alloc::in_hook();
    CTX.try_with(|c| {
        let mut ctx = match c.try_borrow_mut() {
            Ok(c) => c,
            Err(_) => return true,
        };
        let mut sh = shadow::lock();
        let owner = sh.get(addr).map(|e| e.owner);
        match sh.on_pre_destroy(addr) {
            ReleaseCheck::Ok => {
                let id = sh.id_of(addr);
                ctx.stats.releases += 1;
                ctx.fold.u64(0xF4EE0000 | kind as u64);
                ctx.fold.u64(id);
                if ctx.trace {
                    ctx.trace_lines
                        .push(format!("        release {}#{}", shadow::kind_name(kind), id));
                }
                if ctx.check_foreign && ctx.active && !in_harness() && owner != Some(ctx.eval_id) {
                    let opn = op_name(ctx.cur_op);
                    let me = ctx.eval_id;
                    ctx.finding(
                        "foreign-release",
                        format!("{}@{}", shadow::kind_name(kind), opn),
                        format!(
                            "evaluation {} released {} which belongs to evaluation {:?}",
                            me,
                            sh.describe(addr),
                            owner
                        ),
                    );
                }
                true
            }
            ReleaseCheck::Double(id) => {
                let in_gc = ctx.in_gc;
                let wher = if in_harness() {
                    "caller".to_string()
                } else if in_gc {
                    "collector".to_string()
                } else {
                    "interpreter".to_string()
                };
                let step = ctx.step;
                ctx.finding(
                    "double-release",
                    format!("{}@{}", shadow::kind_name(kind), wher),
                    format!(
                        "{}#{} released a second time (by the {}, step {})",
                        shadow::kind_name(kind),
                        id,
                        wher,
                        step
                    ),
                );
                ctx.stop = ctx.stop_on_finding;
                false
            }
            ReleaseCheck::Unknown => {
                let step = ctx.step;
                ctx.finding(
                    "release-unknown",
                    shadow::kind_name(kind).to_string(),
                    format!("release of an address that was never allocated as an object (step {})", step),
                );
                ctx.stop = ctx.stop_on_finding;
                false
            }
        }
    })
    .unwrap_or(true)
}

fn h_post_destroy(addr: usize, _kind: u8) -> bool {
    let _hg = crate::alloc::in_hook();
    shadow::lock().on_post_destroy(addr)
}

fn h_access(addr: usize) {
    let _hg = crate::alloc::in_hook();
    if in_harness() {
        return;
    }
    // scheduling point (sim-threads): also inside an instruction, wherever the interpreter
    // dereferences a heap value (formatting, comparing, copying, marking)
    let sched = CTX
        .try_with(|c| match c.try_borrow() {
            Ok(ctx) if ctx.active => ctx.sched.clone().map(|s| (s, ctx.thread_id)),
            _ => None,
        })
        .ok()
        .flatten();
    if let Some((s, tid)) = sched {
        if s.maybe_switch(tid) {
            let _ = CTX.try_with(|c| {
                if let Ok(mut ctx) = c.try_borrow_mut() {
                    ctx.stats.switches += 1;
                }
            });
        }
    }
    let _ = CTX.try_with(|c| {
        let mut ctx = match c.try_borrow_mut() {
            Ok(c) => c,
            Err(_) => return,
        };
        let sh = shadow::lock();
        let opn = op_name(ctx.cur_op);
        match sh.get(addr) {
            None => {
                let step = ctx.step;
                ctx.finding(
                    "access-unknown",
                    format!("@{}", opn),
                    format!("dereference of an address that is not a known object (step {}, {})", step, opn),
                );
                ctx.stop = ctx.stop_on_finding;
            }
            Some(e) if !e.alive => {
                let d = sh.describe(addr);
                let step = ctx.step;
                let k = shadow::kind_name(e.kind);
                let wher = if ctx.in_gc { "collector" } else { opn };
                ctx.finding(
                    "use-after-release",
                    format!("{}@{}", k, wher),
                    format!("{} dereferenced at step {} ({}) after it was released", d, step, opn),
                );
                ctx.stop = ctx.stop_on_finding;
            }
            Some(e) => {
                if ctx.check_foreign && ctx.active && e.owner != ctx.eval_id {
                    let d = sh.describe(addr);
                    let (me, owner) = (ctx.eval_id, e.owner);
                    let k = shadow::kind_name(e.kind);
                    ctx.finding(
                        "foreign-access",
                        format!("{}@{}", k, opn),
                        format!("evaluation {} dereferenced {} which belongs to evaluation {}", me, d, owner),
                    );
                }
            }
        }
    });
}

fn h_compile() -> bool {
    let _hg = crate::alloc::in_hook();
    if in_harness() {
        return false;
    }
    CTX.try_with(|c| {
        let mut ctx = match c.try_borrow_mut() {
            Ok(c) => c,
            Err(_) => return false,
        };
        if !ctx.active {
            return false;
        }
        let k = ctx.compile_step;
        ctx.compile_step += 1;
        if ctx.compile_crash_at == Some(k) && ctx.injected == Injected::None {
            ctx.injected = Injected::CompileCrash;
            ctx.fold.u64(0xC0C4);
            return true;
        }
        false
    })
    .unwrap_or(false)
}

fn h_print(text: &str) -> bool {
    let _hg = crate::alloc::in_hook();
    let _ = CTX.try_with(|c| {
        if let Ok(mut ctx) = c.try_borrow_mut() {
            if ctx.active {
                ctx.out.push_str(&String::from_utf8_lossy(text.as_bytes()));
            }
        }
    });
    true
}

fn h_gc(ev: GcEvent, gc: &GC) {
    let _hg = crate::alloc::in_hook();
    let _ = CTX.try_with(|c| {
        let mut ctx = match c.try_borrow_mut() {
            Ok(c) => c,
            Err(_) => return,
        };
        match ev {
            GcEvent::RunBegin => {
                ctx.in_gc = true;
                ctx.stats.collections += 1;
                ctx.fold.u64(0x6C00);
                marker("GC+");
                if ctx.trace {
                    ctx.trace_lines
                        .push(format!("        collection begins ({} managed)", gc.verif_objects().len()));
                }
            }
            GcEvent::RunEnd => {
                ctx.in_gc = false;
                ctx.pending_audit = true;
                marker("GC-");
                // managed list must consist of distinct live objects
                let sh = shadow::lock();
                let mut seen = BTreeSet::new();
                for o in gc.verif_objects() {
                    let a = verif::address(*o);
                    if !seen.insert(a) {
                        let d = sh.describe(a);
                        ctx.finding(
                            "managed-list-corrupt",
                            "duplicate".into(),
                            format!("{} is in the collector's list twice after a collection", d),
                        );
                    } else if !sh.is_alive(a) {
                        let d = sh.describe(a);
                        ctx.finding(
                            "managed-list-corrupt",
                            "released-entry".into(),
                            format!("{} is still managed after the collection released it", d),
                        );
                    }
                }
                if ctx.trace {
                    ctx.trace_lines
                        .push(format!("        collection ends ({} managed)", gc.verif_objects().len()));
                }
            }
            GcEvent::Drop => {
                ctx.in_gc = true;
                marker("GCDROP");
            }
        }
    });
}

pub fn gc_drop_done() {
    CTX.with(|c| c.borrow_mut().in_gc = false);
}

pub fn install_hooks() {
    let _ = optable();
    let _ = ops();
    verif::install(verif::Hooks {
        step: h_step,
        alloc: h_alloc,
        pre_destroy: h_pre_destroy,
        post_destroy: h_post_destroy,
        access: h_access,
        print: h_print,
        gc: h_gc,
        compile: h_compile,
    });
}

pub const _KINDS: [u8; 3] = [KIND_FLOAT, KIND_STRING, KIND_ARRAY];
