//! session-sim (C17): one retained Compiler + VM pair driven line by line as the interactive prompt
//! does, with lines made to fail at parse, compile and run time (naturally and by injection at every
//! instruction k), compared line by line with `eval` of the single program made of all successful
//! earlier lines plus the assignments completed by failed ones.

use crate::acc::{Acc, Tier, Violation};
use crate::alloc;
use crate::gen_program::{Gen, Swarm, Ty, Var};
use crate::rng::{mix, Fold, Rng};
use crate::runner::{self, Outcome, Plan};
use crate::shadow;
use crate::sim::{self, CollectPlan, Finding, Injected, CTX};
use nederlang::compiler::Compiler;
use nederlang::object::{Error, Object};
use nederlang::parser::parse;
use nederlang::vm::VM;
use serde_json::{json, Value};
use std::panic::{catch_unwind, AssertUnwindSafe};

pub const TAG: u64 = 0xC17;
pub const PROPERTY: &str = "C17";

#[derive(Clone, Debug, PartialEq)]
pub enum Fail {
    None,
    Parse,
    Compile,
    /// statement `idx` raises a run-time error; the statements before it complete
    Run(usize),
}

#[derive(Clone, Debug)]
pub struct SStmt {
    pub src: String,
    /// executes exactly one top-level effect instruction (SetGlobal / IndexSet at frame depth 1)
    pub effect: bool,
}

#[derive(Clone, Debug)]
pub struct SLine {
    pub label: String,
    pub stmts: Vec<SStmt>,
    pub fail: Fail,
    /// the line's value is defined (it executes a top-level expression statement last)
    pub has_value: bool,
    /// a failure may be injected at any instruction: the effect of the first e top-level effect
    /// instructions is `effect_equiv[..e]` (default: the effect statements themselves)
    pub injectable: bool,
    pub effect_equiv: Option<Vec<String>>,
    /// for `Fail::Run(idx)`: statements equivalent to what the failing statement itself completed
    /// before it failed (assignments made by a function it called)
    pub partial_equiv: Option<Vec<String>>,
}

impl SLine {
    pub fn text(&self) -> String {
        self.stmts.iter().map(|s| s.src.as_str()).collect::<Vec<_>>().join(" ")
    }
    fn equiv(&self) -> Vec<String> {
        match &self.effect_equiv {
            Some(v) => v.clone(),
            None => self.stmts.iter().filter(|s| s.effect).map(|s| s.src.clone()).collect(),
        }
    }
    pub fn to_json(&self) -> Value {
        json!({
            "label": self.label,
            "text": self.text(),
            "stmts": self.stmts.iter().map(|s| json!([s.src, s.effect])).collect::<Vec<_>>(),
            "fail": match &self.fail { Fail::None => json!("none"), Fail::Parse => json!("parse"), Fail::Compile => json!("compile"), Fail::Run(i) => json!({"run": i}) },
            "has_value": self.has_value,
            "injectable": self.injectable,
            "effect_equiv": self.effect_equiv,
            "partial_equiv": self.partial_equiv,
        })
    }
    pub fn from_json(v: &Value) -> SLine {
        SLine {
            label: v["label"].as_str().unwrap_or("?").to_string(),
            stmts: v["stmts"]
                .as_array()
                .map(|a| a.iter().map(|s| SStmt { src: s[0].as_str().unwrap_or("").to_string(), effect: s[1].as_bool().unwrap_or(false) }).collect())
                .unwrap_or_default(),
            fail: match &v["fail"] {
                Value::String(s) if s == "parse" => Fail::Parse,
                Value::String(s) if s == "compile" => Fail::Compile,
                Value::Object(o) => Fail::Run(o.get("run").and_then(|x| x.as_u64()).unwrap_or(0) as usize),
                _ => Fail::None,
            },
            has_value: v["has_value"].as_bool().unwrap_or(false),
            injectable: v["injectable"].as_bool().unwrap_or(false),
            effect_equiv: v["effect_equiv"].as_array().map(|a| a.iter().map(|s| s.as_str().unwrap_or("").to_string()).collect()),
            partial_equiv: v["partial_equiv"].as_array().map(|a| a.iter().map(|s| s.as_str().unwrap_or("").to_string()).collect()),
        }
    }
}

#[derive(Clone, Debug)]
pub struct SessionSpec {
    pub lines: Vec<SLine>,
    /// inject a failure into line `.0` at instruction `.1`
    pub crash: Option<(usize, u64)>,
    /// cut the compilation of line `.0` short at compilation step `.1`
    pub compile_crash: Option<(usize, u64)>,
    pub collect_every_step: bool,
    pub alloc_mode: u8,
    /// the caller releases a value it was handed as soon as no variable can reach it any more
    /// (false: it keeps everything until the session ends, like the shipped prompt)
    pub caller_releases: bool,
    /// also audit the ledger when the session ends (C04: nothing is left once the pair is dropped
    /// and the caller has released what it was handed)
    pub ledger: bool,
    /// released boxes go straight back to the allocator (no quarantine): addresses are recycled, a
    /// stale reference can come to point at a *new* object (with the caller releasing early this is
    /// what a long-running embedding sees)
    pub recycle: bool,
}

/// set by the session-ledger engine (C04) around the scenarios it runs
pub static LEDGER_MODE: std::sync::atomic::AtomicBool = std::sync::atomic::AtomicBool::new(false);

fn ledger_mode() -> bool {
    LEDGER_MODE.load(std::sync::atomic::Ordering::Relaxed)
}

impl SessionSpec {
    pub fn to_json(&self) -> Value {
        json!({
            "engine": "session-sim",
            "kind": "session",
            "lines": self.lines.iter().map(|l| l.to_json()).collect::<Vec<_>>(),
            "crash": self.crash.map(|(l, k)| json!({"line": l, "step": k})),
            "compile_crash": self.compile_crash.map(|(l, k)| json!({"line": l, "step": k})),
            "collect_every_step": self.collect_every_step,
            "alloc_mode": alloc::mode_name(self.alloc_mode),
            "caller_releases": self.caller_releases,
            "ledger": self.ledger || ledger_mode(),
            "recycle": self.recycle,
        })
    }
    pub fn from_json(v: &Value) -> SessionSpec {
        SessionSpec {
            lines: v["lines"].as_array().map(|a| a.iter().map(SLine::from_json).collect()).unwrap_or_default(),
            crash: if v["crash"].is_object() {
                Some((v["crash"]["line"].as_u64().unwrap_or(0) as usize, v["crash"]["step"].as_u64().unwrap_or(0)))
            } else {
                None
            },
            compile_crash: if v["compile_crash"].is_object() {
                Some((v["compile_crash"]["line"].as_u64().unwrap_or(0) as usize, v["compile_crash"]["step"].as_u64().unwrap_or(0)))
            } else {
                None
            },
            collect_every_step: v["collect_every_step"].as_bool().unwrap_or(false),
            alloc_mode: alloc::mode_from_name(v["alloc_mode"].as_str().unwrap_or("plain")),
            caller_releases: v["caller_releases"].as_bool().unwrap_or(false),
            ledger: v["ledger"].as_bool().unwrap_or(false),
            recycle: v["recycle"].as_bool().unwrap_or(false),
        }
    }
}

// ---------------------------------------------------------------------------------------------
// the session driver (what bin/nederlang.rs run_repl does, without unwrap)

struct Session {
    compiler: Option<Compiler>,
    vm: Option<VM>,
    results: Vec<Object>,
    /// objects the machine stopped managing when it handed them out (mirrors `GC::untrace`)
    owned: Vec<Object>,
    last_globals: Vec<Object>,
    pub released_early: u64,
}

pub struct LineRun {
    pub outcome: Outcome,
    pub out: String,
    pub injected: Injected,
    pub steps: u64,
    pub compile_steps: u64,
    pub effects: u64,
    pub findings: Vec<Finding>,
    pub log: u64,
    pub frames_at_crash: usize,
    pub stack_at_crash: usize,
    pub collections: u64,
}

const SESSION_ID: u64 = 1;
const MODEL_ID: u64 = 2;

impl Session {
    fn new() -> Session {
        Session {
            compiler: Some(Compiler::new()),
            vm: Some(VM::new()),
            results: Vec::new(),
            owned: Vec::new(),
            last_globals: Vec::new(),
            released_early: 0,
        }
    }

    /// what `GC::untrace` does: the value, and the elements of an array the machine still managed
    fn take_ownership(&mut self, v: Object) {
        if !v.is_heap_allocated() {
            return;
        }
        let a = nederlang::verif::address(v);
        if self.owned.iter().any(|o| nederlang::verif::address(*o) == a) {
            return;
        }
        if !shadow::lock().is_alive(a) {
            return;
        }
        self.owned.push(v);
        if v.tag() == nederlang::object::Type::Array {
            let els: Vec<Object> = v.as_vec().iter().copied().collect();
            for e in els {
                self.take_ownership(e);
            }
        }
    }

    /// Between two lines the machine refers to a value it handed out only through the global
    /// variables: the caller releases every value of its own that no variable reaches any more.
    fn caller_release(&mut self) -> Vec<Finding> {
        let _g = sim::enter_harness();
        let victims: Vec<Object> = {
            let sh = shadow::lock();
            let reach: std::collections::BTreeSet<usize> =
                sim::collect_objects_ordered(&sh, &[self.last_globals.as_slice()]).into_iter().map(|(a, _)| a).collect();
            self.owned
                .iter()
                .copied()
                .filter(|o| {
                    let a = nederlang::verif::address(*o);
                    sh.is_alive(a) && !reach.contains(&a)
                })
                .collect()
        };
        for o in &victims {
            o.free();
        }
        self.released_early += victims.len() as u64;
        let sh = shadow::lock();
        self.owned.retain(|o| sh.is_alive(nederlang::verif::address(*o)));
        drop(sh);
        CTX.with(|c| std::mem::take(&mut c.borrow_mut().findings))
    }

    fn run_line(&mut self, text: &str, plan: &Plan) -> LineRun {
        runner::begin_run(plan, SESSION_ID, 0, None);
        CTX.with(|c| c.borrow_mut().keep_globals = true);
        sim::marker("LINE+");
        alloc::set_mode(plan.alloc_mode);
        let compiler = self.compiler.as_mut().unwrap();
        let vm = self.vm.as_mut().unwrap();
        let r: std::thread::Result<Result<Object, Error>> = catch_unwind(AssertUnwindSafe(|| {
            let ast = parse(text)?;
            let code = compiler.compile_ast(&ast)?;
            vm.run(code)
        }));
        alloc::reset_mode();
        sim::marker("LINE-");
        CTX.with(|c| {
            let mut ctx = c.borrow_mut();
            ctx.active = false;
            ctx.in_gc = false;
        });
        let (mut outcome, value) = runner::classify(r);
        let mut extra = Vec::new();
        if let Some(v) = value {
            let mut dead = Vec::new();
            let text = runner::render_value(v, &mut dead);
            outcome = Outcome::Ok(text);
            for d in dead {
                extra.push(Finding {
                    class: "result-invalid".into(),
                    key: d.split('#').next().unwrap_or("?").to_string(),
                    detail: format!("the value of the line contains {} which is not allocated any more", d),
                });
            }
            if v.is_heap_allocated() {
                self.results.push(v);
                let _g = sim::enter_harness();
                self.take_ownership(v);
            }
        }
        CTX.with(|c| {
            let mut ctx = c.borrow_mut();
            if ctx.step > 0 {
                self.last_globals = std::mem::take(&mut ctx.last_globals);
            }
            let mut findings = std::mem::take(&mut ctx.findings);
            findings.extend(extra);
            let (f, s) = ctx.crash_state.as_ref().map(|c| (c.frames, c.stack)).unwrap_or((0, 0));
            LineRun {
                outcome,
                out: std::mem::take(&mut ctx.out),
                injected: ctx.injected.clone(),
                steps: ctx.step,
                compile_steps: ctx.compile_step,
                effects: ctx.effects,
                findings,
                log: ctx.fold.0,
                frames_at_crash: f,
                stack_at_crash: s,
                collections: ctx.stats.collections,
            }
        })
    }

    /// Ends the session: the pair is dropped, the caller releases every value it was handed.
    fn finish(mut self) -> Vec<Finding> {
        CTX.with(|c| {
            let mut ctx = c.borrow_mut();
            *ctx = sim::Ctx::new();
            ctx.eval_id = SESSION_ID;
        });
        let vm = self.vm.take();
        let compiler = self.compiler.take();
        let _ = catch_unwind(AssertUnwindSafe(move || {
            drop(vm);
            drop(compiler);
        }));
        sim::gc_drop_done();
        {
            let _g = sim::enter_harness();
            let objs = {
                let sh = shadow::lock();
                // (a container released early may have been the only path to something still owned)
                sim::collect_objects_ordered(&sh, &[self.results.as_slice(), self.owned.as_slice()])
            };
            for (_, o) in objs {
                o.free();
            }
        }
        let mut findings = CTX.with(|c| std::mem::take(&mut c.borrow_mut().findings));
        let mut sh = shadow::lock();
        let left = sh.alive_of(SESSION_ID);
        if !left.is_empty() {
            let mut kinds: Vec<&str> = left.iter().map(|a| sh.get(*a).map(|e| shadow::kind_name(e.kind)).unwrap_or("?")).collect();
            kinds.sort();
            kinds.dedup();
            let what: Vec<String> = left.iter().take(6).map(|a| sh.describe(*a)).collect();
            findings.push(Finding {
                class: "leak".into(),
                key: format!("session-end:{}", kinds.join("+")),
                detail: format!(
                    "{} object(s) still allocated after the compiler and the machine were dropped and the caller released every value it was handed: {}",
                    left.len(),
                    what.join(", ")
                ),
            });
        }
        sh.reset_owner(SESSION_ID);
        drop(sh);
        alloc::flush_parked();
        findings
    }
}

// ---------------------------------------------------------------------------------------------
// running a session against the growing-program model

pub struct SessionResult {
    pub findings: Vec<Finding>,
    pub log: u64,
    pub lines_run: usize,
    pub steps: u64,
    pub model_steps: u64,
    pub skeleton: String,
    pub crash_tuple: Option<(usize, usize, u64)>,
    pub line_steps: Vec<u64>,
    pub line_compile_steps: Vec<u64>,
    pub compile_injected_fired: bool,
    pub lines_judged_by_model_alone: u64,
    pub inconsistent: bool,
    pub transcript: Vec<String>,
    pub collections: u64,
    pub injected_fired: bool,
    pub lines_after_failure: u64,
    pub heap_values_crossed_lines: bool,
    pub read_poisoned: bool,
    pub inconsistent_why: String,
    pub released_early: u64,
}

const HEAP_CLASSES: &[&str] = &[
    "use-after-release",
    "double-release",
    "release-unknown",
    "access-unknown",
    "reachable-reclaimed",
    "survivor-changed",
    "result-invalid",
    "managed-list-corrupt",
    "foreign-access",
];

fn model_eval(p: &[String], line: Option<&str>) -> runner::RunResult {
    let mut src = p.join("\n");
    if let Some(l) = line {
        if !src.is_empty() {
            src.push('\n');
        }
        src.push_str(l);
    }
    src.push('\n');
    let mut plan = Plan::plain();
    plan.budget = 400_000;
    runner::run_eval(&src, &plan, MODEL_ID, false)
}

fn kind_of(o: &Outcome, inj: &Injected) -> String {
    match inj {
        Injected::Guard(g) => format!("wild:{}", g),
        Injected::Budget => "no-progress".into(),
        _ => o.kind(),
    }
}

/// identifier tokens of a source text (string literals removed)
fn idents(text: &str) -> Vec<String> {
    let mut clean = String::new();
    let mut in_str = false;
    let mut esc = false;
    for c in text.chars() {
        if in_str {
            if esc {
                esc = false;
            } else if c == '\\' {
                esc = true;
            } else if c == '"' {
                in_str = false;
            }
            clean.push(' ');
        } else if c == '"' {
            in_str = true;
            clean.push(' ');
        } else {
            clean.push(c);
        }
    }
    clean
        .split(|c: char| !(c.is_alphanumeric() || c == '_'))
        .filter(|t| !t.is_empty() && !t.chars().next().unwrap().is_ascii_digit())
        .map(|t| t.to_string())
        .collect()
}

/// names a source text declares at its top level (`stel x`, `functie f` outside any braces)
fn declared(text: &str) -> Vec<String> {
    // blank out everything inside braces, then look at the remaining tokens
    let mut top = String::new();
    let mut depth = 0usize;
    let mut in_str = false;
    let mut esc = false;
    for c in text.chars() {
        if in_str {
            if esc {
                esc = false;
            } else if c == '\\' {
                esc = true;
            } else if c == '"' {
                in_str = false;
            }
            top.push(' ');
            continue;
        }
        match c {
            '"' => {
                in_str = true;
                top.push(' ');
            }
            '{' => {
                depth += 1;
                top.push(' ');
            }
            '}' => {
                depth = depth.saturating_sub(1);
                top.push(' ');
            }
            _ if depth > 0 => top.push(' '),
            _ => top.push(c),
        }
    }
    let t = idents(&top);
    t.windows(2).filter(|w| w[0] == "stel" || w[0] == "functie").map(|w| w[1].clone()).collect()
}

/// The store model: what a plain read of a global must yield, known only for globals whose every
/// mention so far was a declaration or assignment of a literal (or a plain read) on a line that
/// completed. Anything else mentioning a name (a computed value, a function body, a block, a second
/// declaration, a line that failed) makes the name permanently unknown to the model.
#[derive(Default)]
struct Store {
    known: std::collections::BTreeMap<String, String>,
    declared: std::collections::BTreeSet<String>,
    unknown: std::collections::BTreeSet<String>,
}

enum StoreOp {
    Decl(String, Option<String>),
    Assign(String, Option<String>),
    Read(String),
    Other,
}

fn is_ident(t: &str) -> bool {
    !t.is_empty() && t.chars().all(|c| c.is_alphanumeric() || c == '_') && !t.chars().next().unwrap().is_ascii_digit() && !matches!(t, "ja" | "nee" | "stel" | "als" | "anders" | "zolang" | "functie" | "stop" | "volgende" | "antwoord")
}

/// the harness's rendering of a literal, if `src` is one the model understands
fn literal_render(src: &str) -> Option<String> {
    let t = src.trim();
    if t == "ja" || t == "nee" {
        return Some(t.to_string());
    }
    if t == "als nee { 1 }" || t == "als nee { 0 }" {
        return Some("null".to_string());
    }
    if !t.is_empty() && t.len() < 16 && t.chars().all(|c| c.is_ascii_digit()) {
        return t.parse::<u64>().ok().map(|v| v.to_string());
    }
    if t.len() >= 2 && t.starts_with('"') && t.ends_with('"') {
        let inner = &t[1..t.len() - 1];
        if inner.chars().all(|c| c.is_ascii_alphanumeric() || c == ' ') {
            return Some(format!("\"{}\"", inner));
        }
    }
    None
}

fn store_op(stmt: &str) -> StoreOp {
    let t = stmt.trim().trim_end_matches(';').trim();
    if is_ident(t) {
        return StoreOp::Read(t.to_string());
    }
    if let Some((lhs, rhs)) = t.split_once(" = ") {
        let lhs = lhs.trim();
        if let Some(name) = lhs.strip_prefix("stel ") {
            if is_ident(name.trim()) {
                return StoreOp::Decl(name.trim().to_string(), literal_render(rhs));
            }
        } else if is_ident(lhs) {
            return StoreOp::Assign(lhs.to_string(), literal_render(rhs));
        }
    }
    StoreOp::Other
}

impl Store {
    fn forget(&mut self, name: &str) {
        self.known.remove(name);
        self.unknown.insert(name.to_string());
    }

    /// Applies a line the session has run; returns a finding if a plain read of a known global did
    /// not yield its value.
    fn line(&mut self, line: &SLine, outcome: &Outcome, li: usize, cut: bool) -> Option<Finding> {
        let ok = matches!(outcome, Outcome::Ok(_)) && !cut;
        let single_read = !cut && line.stmts.len() == 1 && matches!(store_op(&line.stmts[0].src), StoreOp::Read(_));
        if !ok && !single_read {
            // a line that did not complete: the model does not try to know what it completed
            for n in idents(&line.text()) {
                self.forget(&n);
            }
            return None;
        }
        let mut last_read: Option<String> = None;
        for st in &line.stmts {
            last_read = None;
            match store_op(&st.src) {
                StoreOp::Read(n) => last_read = Some(n),
                StoreOp::Decl(n, v) => {
                    let again = self.declared.contains(&n);
                    self.declared.insert(n.clone());
                    match v {
                        Some(v) if !again && !self.unknown.contains(&n) => {
                            self.known.insert(n, v);
                        }
                        _ => self.forget(&n),
                    }
                }
                StoreOp::Assign(n, v) => match v {
                    Some(v) if self.declared.contains(&n) && !self.unknown.contains(&n) => {
                        self.known.insert(n, v);
                    }
                    _ => self.forget(&n),
                },
                StoreOp::Other => {
                    for n in idents(&st.src) {
                        self.forget(&n);
                    }
                }
            }
        }
        let name = last_read?;
        let expected = self.known.get(&name)?.clone();
        let got = match outcome {
            Outcome::Ok(v) => v.clone(),
            o => o.render(),
        };
        if got == expected {
            return None;
        }
        Some(Finding {
            class: "global-not-seen".into(),
            key: format!("{}->{}", if expected.starts_with('"') { "string" } else if expected == "null" { "null" } else if expected == "ja" || expected == "nee" { "bool" } else { "int" }, outcome.kind()),
            detail: format!(
                "line {} ({:?}) reads the global `{}`, which completed earlier lines declared / assigned with the literal value {}; the retained compiler+machine gives {}",
                li,
                line.text(),
                name,
                expected,
                got
            ),
        })
    }
}

pub fn run_session(spec: &SessionSpec, verbose: bool) -> SessionResult {
    let quarantine_before = shadow::QUARANTINE.load(std::sync::atomic::Ordering::Relaxed);
    if spec.recycle {
        shadow::QUARANTINE.store(false, std::sync::atomic::Ordering::Relaxed);
        // addresses are recycled by the simulator's own last-in-first-out rule for the whole session
        // (lines, what the caller releases in between, the final drop), so that a replay re-uses the
        // same addresses in the same order
        alloc::flush_cache();
        alloc::set_ambient(alloc::RECYCLE);
    }
    let r = run_session_inner(spec, verbose);
    if spec.recycle {
        alloc::set_ambient(alloc::PLAIN);
        alloc::flush_cache();
    }
    shadow::QUARANTINE.store(quarantine_before, std::sync::atomic::Ordering::Relaxed);
    r
}

fn run_session_inner(spec: &SessionSpec, verbose: bool) -> SessionResult {
    let mut s = Session::new();
    let mut p: Vec<String> = Vec::new();
    let mut out_p = String::new(); // output of eval(P)
    let mut findings: Vec<Finding> = Vec::new();
    let mut log = Fold::new();
    let mut res = SessionResult {
        findings: Vec::new(),
        log: 0,
        lines_run: 0,
        steps: 0,
        model_steps: 0,
        skeleton: String::new(),
        crash_tuple: None,
        line_steps: Vec::new(),
        line_compile_steps: Vec::new(),
        compile_injected_fired: false,
        lines_judged_by_model_alone: 0,
        inconsistent: false,
        transcript: Vec::new(),
        collections: 0,
        injected_fired: false,
        lines_after_failure: 0,
        heap_values_crossed_lines: false,
        read_poisoned: false,
        inconsistent_why: String::new(),
        released_early: 0,
    };
    let mut last_fail = "none".to_string();
    let mut skeleton: Vec<String> = Vec::new();
    // names declared by the part of a failed line that did not complete: the compiler knows them,
    // the machine never assigned them
    let mut poisoned: Vec<String> = Vec::new();
    let mut store = Store::default();
    for (li, line) in spec.lines.iter().enumerate() {
        let text = line.text();
        let reads_poisoned = idents(&text).iter().any(|t| poisoned.contains(t));
        // model: the line as the last line of the single program made of everything that completed
        let m = model_eval(&p, Some(&text));
        res.model_steps += m.steps;
        if (line.label == "jumps" || line.label == "literals") && (m.injected == Injected::Budget || matches!(m.injected, Injected::Guard(_))) {
            // the hand-written lines of the offset / constant-index sweep finish within a thousand steps;
            // if the same text runs away behind the padding (step budget, or a guard rail such as the
            // stack limit), its meaning depends on where its code or its literals lie (found with
            // mutant m14, whose sessions were discarded here as "outside the model's domain")
            findings.push(Finding {
                class: "line-outcome-differs".into(),
                key: format!("ok->{}|after:{}", kind_of(&m.outcome, &m.injected), last_fail),
                detail: format!("line {} ({:?}): as the last line of the single program of all completed earlier lines it is stopped after {} steps ({}); alone it needs fewer than a thousand", li, text.chars().take(200).collect::<String>(), m.steps, kind_of(&m.outcome, &m.injected)),
            });
            break;
        }
        if m.injected == Injected::Budget || (matches!(m.outcome, Outcome::Panic(_)) && line.fail == Fail::None) {
            // outside the domain the model is defined on (e.g. more than 65535 bytes of code)
            res.inconsistent = true;
            break;
        }
        // what the generator promised must be what the model says, else the case is discarded
        let promised_ok = line.fail == Fail::None;
        // after an injected failure the generator's promise about later lines is void (they were
        // written for a session in which the cut-short line completed): the model alone decides
        let judged_by_model = promised_ok != m.outcome.is_ok() && !reads_poisoned && (res.injected_fired || res.compile_injected_fired);
        if judged_by_model {
            res.lines_judged_by_model_alone += 1;
        }
        // (decided here, acted upon after the line has run: the store model below does not depend on it)
        let discard = promised_ok != m.outcome.is_ok() && !reads_poisoned && !judged_by_model;
        let crash_here = matches!(spec.crash, Some((l, _)) if l == li);
        let mut plan = Plan::plain();
        plan.budget = 4 * m.steps + 1000;
        plan.alloc_mode = if spec.recycle { alloc::RECYCLE } else { spec.alloc_mode };
        plan.track_survivors = true;
        if spec.collect_every_step {
            plan.collect = CollectPlan::Every;
        }
        if crash_here {
            plan.crash_at = spec.crash.map(|(_, k)| k);
        }
        let compile_crash_here = matches!(spec.compile_crash, Some((l, _)) if l == li);
        if compile_crash_here {
            plan.compile_crash_at = spec.compile_crash.map(|(_, k)| k);
        }
        let mut r = s.run_line(&text, &plan);
        if spec.caller_releases {
            let f = s.caller_release();
            r.findings.extend(f);
        }
        res.lines_run += 1;
        res.steps += r.steps;
        res.line_steps.push(r.steps);
        res.line_compile_steps.push(r.compile_steps);
        res.collections += r.collections;
        log.u64(r.log);
        log.str(&r.outcome.render());
        log.str(&r.out);
        if last_fail != "none" {
            res.lines_after_failure += 1;
        }
        let injected_now = crash_here && r.injected == Injected::Crash;
        let compile_injected_now = compile_crash_here && r.injected == Injected::CompileCrash;
        let label = if injected_now {
            format!("{}!inject", line.label)
        } else if compile_injected_now {
            format!("{}!compile-inject", line.label)
        } else {
            line.label.clone()
        };
        skeleton.push(label.clone());
        if verbose {
            res.transcript.push(format!(
                "line {} [{}] {:?}\n      session: {} | out={:?} (steps {}, effects {}, {:?})\n      model  : {} | out={:?}",
                li,
                label,
                text,
                r.outcome.render(),
                r.out,
                r.steps,
                r.effects,
                r.injected,
                m.outcome.render(),
                m.out.strip_prefix(out_p.as_str()).unwrap_or(&m.out)
            ));
        }
        // heap invariants hold across the whole session
        let mut stop = false;
        for f in &r.findings {
            if HEAP_CLASSES.contains(&f.class.as_str()) {
                findings.push(Finding {
                    class: f.class.clone(),
                    key: format!("{}|after:{}", f.key, last_fail),
                    detail: format!("line {} ({:?}): {}", li, text, f.detail),
                });
                stop = true;
            }
        }
        if stop {
            break;
        }
        // absolute part of the property ("every line sees the global variables declared by earlier
        // lines with their current values"): a tiny store model of literal declarations / assignments
        // and plain reads, independent of the interpreter
        let cut = r.injected != Injected::None;
        if let Some(f) = store.line(line, &r.outcome, li, cut) {
            findings.push(f);
            break;
        }
        if discard {
            res.inconsistent = true;
            res.inconsistent_why = format!("[{}] promised {:?}, model says {} :: {}", line.label, line.fail, m.outcome.render().chars().take(90).collect::<String>(), text.chars().take(160).collect::<String>());
            if verbose {
                res.transcript.push(format!("line {} discarded: generator promised {:?}, model says {}", li, line.fail, m.outcome.render()));
            }
            break;
        }
        if compile_injected_now {
            res.compile_injected_fired = true;
            // the compilation fails as a whole: nothing of the line ran, nothing of it exists afterwards
            let ok = r.steps == 0 && matches!(&r.outcome, Outcome::Err(k, msg) if k == "TypeError" && msg == nederlang::verif::INJECTED_FAILURE);
            if !ok {
                findings.push(Finding {
                    class: "line-outcome-differs".into(),
                    key: format!("compile-injected->{}|after:{}", kind_of(&r.outcome, &r.injected), last_fail),
                    detail: format!("line {} ({:?}) whose compilation was cut short at step {} ended with {} after executing {} instructions", li, text, plan.compile_crash_at.unwrap(), r.outcome.render(), r.steps),
                });
                break;
            }
            last_fail = "compile-inject".into();
            continue;
        }
        if injected_now {
            res.injected_fired = true;
            res.crash_tuple = Some((r.frames_at_crash.min(6), crate::engine_crash::bucket(r.stack_at_crash), r.effects.min(8)));
            // the injected failure must come out as the injected error
            let ok = matches!(&r.outcome, Outcome::Err(k, msg) if k == "TypeError" && msg == nederlang::verif::INJECTED_FAILURE);
            if !ok {
                findings.push(Finding {
                    class: "line-outcome-differs".into(),
                    key: format!("injected->{}|after:{}", kind_of(&r.outcome, &r.injected), last_fail),
                    detail: format!("line {} ({:?}) cut short at instruction {} ended with {}", li, text, plan.crash_at.unwrap(), r.outcome.render()),
                });
                break;
            }
            // the assignments it completed before failing stay
            let eq = line.equiv();
            let e = (r.effects as usize).min(eq.len());
            p.extend(eq[..e].iter().cloned());
            let done: Vec<String> = declared(&eq[..e].join(" "));
            let before: Vec<String> = declared(&p[..p.len() - e].join(" "));
            for n in declared(&text) {
                // (a name that a completed line had declared before keeps that declaration)
                if !done.contains(&n) && !before.contains(&n) {
                    poisoned.push(n);
                }
            }
            if e > 0 {
                let m2 = model_eval(&p, None);
                out_p = m2.out;
            }
            last_fail = "inject".into();
            continue;
        }
        // expected: the model's outcome with the output of P removed from the front
        let exp_out = m.out.strip_prefix(out_p.as_str()).unwrap_or(&m.out).to_string();
        let exp_kind = m.outcome.kind();
        let got_kind = kind_of(&r.outcome, &r.injected);
        let same = match (&m.outcome, &r.outcome) {
            (Outcome::Ok(a), Outcome::Ok(b)) => !line.has_value || a == b,
            (Outcome::Err(k1, m1), Outcome::Err(k2, m2)) => k1 == k2 && m1 == m2 && r.injected == Injected::None,
            (Outcome::Panic(_), Outcome::Panic(_)) => true,
            _ => false,
        };
        if !same {
            let class = if reads_poisoned {
                // DESIGN.md 4.3 item 9: its own class, so that it is never confused with anything else
                "read-of-name-declared-by-failed-line"
            } else if matches!(r.injected, Injected::Guard(_)) {
                "wild-execution"
            } else if r.injected == Injected::Budget {
                "progress"
            } else {
                "line-outcome-differs"
            };
            let last_fail = if reads_poisoned { "any".to_string() } else { last_fail.clone() };
            findings.push(Finding {
                class: class.into(),
                key: if reads_poisoned { "compiler-knows-the-name-machine-never-assigned-it".to_string() } else { format!("{}->{}|after:{}", exp_kind, got_kind, last_fail) },
                detail: format!(
                    "line {} ({:?}): as the last line of the single program of all completed earlier lines it gives {} ; on the retained compiler+machine it gives {}{}",
                    li,
                    text,
                    m.outcome.render(),
                    r.outcome.render(),
                    match &r.injected { Injected::Guard(g) => format!(" (stopped by guard: {})", g), Injected::Budget => " (step budget exceeded)".to_string(), _ => String::new() }
                ),
            });
            break;
        }
        if exp_out != r.out && reads_poisoned {
            // (the same known defect seen through `print`: the value printed is the never-assigned slot)
            findings.push(Finding {
                class: "read-of-name-declared-by-failed-line".into(),
                key: "compiler-knows-the-name-machine-never-assigned-it".to_string(),
                detail: format!("line {} ({:?}): expected output {:?}, got {:?}", li, text, exp_out, r.out),
            });
            break;
        }
        if exp_out != r.out {
            findings.push(Finding {
                class: "line-output-differs".into(),
                key: format!("{}|after:{}", exp_kind, last_fail),
                detail: format!("line {} ({:?}): expected output {:?}, got {:?}", li, text, exp_out, r.out),
            });
            break;
        }
        if judged_by_model {
            if m.outcome.is_ok() {
                p.extend(line.stmts.iter().map(|s| s.src.clone()));
                out_p = m.out.clone();
                continue;
            } else if r.steps == 0 {
                // failed before anything ran (a reference to a name the cut-short line would have declared)
                last_fail = "compile".into();
                continue;
            }
            break;
        }
        // extend P
        match (&line.fail, &m.outcome) {
            (Fail::None, _) => {
                p.extend(line.stmts.iter().map(|s| s.src.clone()));
                out_p = m.out.clone();
                if matches!(&r.outcome, Outcome::Ok(v) if v.contains('"') || v.contains('[') || v.contains('/')) && li > 0 {
                    res.heap_values_crossed_lines = true;
                }
            }
            (Fail::Run(_), _) if r.steps == 0 => {
                // (after an injected failure) the line did not get as far as running: a reference
                // to a name the cut-short line would have declared. Nothing of it completed.
                last_fail = "compile".into();
            }
            (Fail::Run(idx), _) => {
                let idx = (*idx).min(line.stmts.len());
                let done: Vec<String> = declared(&line.stmts[..idx].iter().map(|s| s.src.as_str()).collect::<Vec<_>>().join(" "));
                let before: Vec<String> = declared(&p.join(" "));
                for n in declared(&text) {
                    if !done.contains(&n) && !before.contains(&n) {
                        poisoned.push(n);
                    }
                }
                if idx > 0 || line.partial_equiv.is_some() {
                    p.extend(line.stmts[..idx].iter().map(|s| s.src.clone()));
                    if let Some(pe) = &line.partial_equiv {
                        p.extend(pe.iter().cloned());
                    }
                    // sanity: the completed part must succeed on its own
                    let m2 = model_eval(&p, None);
                    if !m2.outcome.is_ok() {
                        res.inconsistent = true;
                        break;
                    }
                    out_p = m2.out;
                }
                last_fail = "run".into();
            }
            (Fail::Parse, _) => last_fail = "parse".into(),
            (Fail::Compile, _) => last_fail = "compile".into(),
        }
        if reads_poisoned {
            res.read_poisoned = true;
            break;
        }
        if matches!(m.outcome, Outcome::Panic(_)) {
            // both panicked identically: the pair is in an unknown state, stop here
            break;
        }
    }
    res.released_early = s.released_early;
    let end = s.finish();
    let ledger = spec.ledger || ledger_mode();
    for f in end {
        if f.class == "leak" {
            if ledger && findings.is_empty() {
                findings.push(f);
            }
            continue;
        }
        if HEAP_CLASSES.contains(&f.class.as_str()) && findings.is_empty() {
            findings.push(Finding {
                class: f.class.clone(),
                key: format!("{}|at-session-end", f.key),
                detail: format!("when the pair was dropped and the handed-out values released: {}", f.detail),
            });
        }
    }
    log.u64(findings.len() as u64);
    res.findings = findings;
    res.log = log.0;
    res.skeleton = skeleton.join(",");
    res
}

// ---------------------------------------------------------------------------------------------
// line alphabet (complete enumeration of short sessions)

#[derive(Clone, Debug)]
struct GEnv {
    /// completed globals: (name, kind) with kind in int, float, str (literal), fresh (string(n)), arr
    globals: Vec<(String, &'static str)>,
    /// names declared by lines that failed to parse or compile: unknown afterwards, free to declare again
    failed: Vec<String>,
}

impl GEnv {
    fn latest(&self, kind: &str) -> Option<String> {
        self.globals.iter().rev().find(|(_, k)| *k == kind).map(|(n, _)| n.clone())
    }
    fn latest_any(&self) -> Option<String> {
        self.globals.last().map(|(n, _)| n.clone())
    }
}

fn st(src: &str, effect: bool) -> SStmt {
    SStmt { src: src.to_string(), effect }
}

fn line(label: &str, stmts: Vec<SStmt>, fail: Fail, has_value: bool, injectable: bool) -> SLine {
    SLine {
        label: label.to_string(),
        stmts,
        fail,
        has_value,
        injectable,
        effect_equiv: None,
        partial_equiv: None,
    }
}

pub const ALPHABET: usize = 33;

/// Template `t` at session position `pos` (names are position-based, so never re-declared).
fn template(t: usize, pos: usize, env: &mut GEnv) -> SLine {
    let g = format!("g{}", pos);
    let f = format!("f{}", pos);
    let mut decl = |env: &mut GEnv, kind: &'static str| env.globals.push((g.clone(), kind));
    match t {
        0 => {
            decl(env, "int");
            line("decl-int", vec![st(&format!("stel {} = 7;", g), true)], Fail::None, false, true)
        }
        1 => {
            decl(env, "str");
            line("decl-str", vec![st(&format!("stel {} = \"tekst\";", g), true)], Fail::None, false, true)
        }
        2 => {
            decl(env, "fresh");
            line("decl-fresh-str", vec![st(&format!("stel {} = string(12345);", g), true)], Fail::None, false, true)
        }
        3 => {
            decl(env, "arr");
            line("decl-arr", vec![st(&format!("stel {} = [1, \"a\", 2.5];", g), true)], Fail::None, false, true)
        }
        4 => {
            decl(env, "float");
            line("decl-float", vec![st(&format!("stel {} = 2.5;", g), true)], Fail::None, false, true)
        }
        5 => match env.latest("int") {
            Some(n) => line("assign-int", vec![st(&format!("{n} = {n} + 1;", n = n), true)], Fail::None, true, true),
            None => template(0, pos, env),
        },
        6 => match env.latest_any() {
            Some(n) => line("read", vec![st(&format!("{};", n), false)], Fail::None, true, true),
            None => line("read", vec![st("0;", false)], Fail::None, true, true),
        },
        7 => {
            decl(env, "arr");
            line(
                "func-then-decl",
                vec![
                    st(&format!("functie {}(a) {{ stel t = [a, \"x\"]; t }};", f), true),
                    st(&format!("stel {} = {}(3);", g, f), true),
                ],
                Fail::None,
                false,
                true,
            )
        }
        8 => line(
            "func-call-value",
            vec![st(&format!("functie {}() {{ \"s\" }};", f), true), st(&format!("{}();", f), false)],
            Fail::None,
            true,
            true,
        ),
        9 => match env.latest("arr") {
            Some(n) => line("elem-assign", vec![st(&format!("{}[0] = string(9);", n), true)], Fail::None, true, true),
            None => template(3, pos, env),
        },
        10 => match env.latest("fresh") {
            Some(n) => line("str-elem-assign", vec![st(&format!("{}[0] = \"z\";", n), true)], Fail::None, true, true),
            None => template(2, pos, env),
        },
        11 => {
            let i = format!("i{}", pos);
            env.globals.push((i.clone(), "int"));
            let mut l = line(
                "loop",
                vec![
                    st(&format!("stel {} = 0;", i), true),
                    st(&format!("zolang {i} < 3 {{ {i} = {i} + 1; als {i} == 2 {{ volgende; }}; }};", i = i), true),
                    st(&format!("{};", i), false),
                ],
                Fail::None,
                true,
                true,
            );
            l.effect_equiv = Some(vec![
                format!("stel {} = 0;", i),
                format!("{} = 1;", i),
                format!("{} = 2;", i),
                format!("{} = 3;", i),
            ]);
            l
        }
        12 => line("parse-fail", vec![st(&format!("stel {} = (1 + ", g), false)], Fail::Parse, false, false),
        13 => {
            env.failed.push(g.clone());
            line(
                "compile-fail-after-decl",
                vec![st(&format!("stel {} = 1;", g), true), st("onbekend;", false)],
                Fail::Compile,
                false,
                false,
            )
        }
        14 => line("compile-fail-stop", vec![st("stop;", false)], Fail::Compile, false, false),
        15 => line(
            "compile-fail-nested",
            vec![st(&format!("functie {}() {{ stel a = 1; {{ onbekend{} }} }};", f, pos), false)],
            Fail::Compile,
            false,
            false,
        ),
        16 => {
            decl(env, "arr");
            line(
                "run-fail-after-decl",
                vec![st(&format!("stel {} = [1.5, \"q\"];", g), true), st("1 + ja;", false)],
                Fail::Run(1),
                false,
                false,
            )
        }
        17 => line(
            "run-fail-in-calls",
            vec![
                st(&format!("functie {}(a) {{ stel l = [a, \"k\"]; [l, 1 + ja] }};", f), true),
                st(&format!("functie h{}() {{ {}(\"p\") }};", pos, f), true),
                st(&format!("[\"q\", h{}()];", pos), false),
            ],
            Fail::Run(2),
            false,
            false,
        ),
        18 => line(
            "run-fail-mid-statement",
            vec![st(&format!("stel {} = [\"a\", [1][3]];", g), false)],
            Fail::Run(0),
            false,
            false,
        ),
        19 => match env.latest("arr") {
            Some(n) => line(
                "collect-then-read",
                vec![st(&format!("functie {}() {{ 0 }};", f), true), st(&format!("{}();", f), false), st(&format!("{}[1];", n), false)],
                Fail::None,
                true,
                true,
            ),
            None => line(
                "collect-then-read",
                vec![st(&format!("functie {}() {{ 0 }};", f), true), st(&format!("{}();", f), false)],
                Fail::None,
                true,
                true,
            ),
        },
        20 => match env.latest_any() {
            Some(n) => line("print", vec![st(&format!("print(\"v={{}}\", {});", n), false)], Fail::None, true, true),
            None => line("print", vec![st("print(\"leeg\");", false)], Fail::None, true, true),
        },
        22 => match env.failed.pop() {
            // a name that only a failed line declared is declared (again) and read
            Some(n) => {
                env.globals.push((n.clone(), "int"));
                line("redeclare-name-of-failed-line", vec![st(&format!("stel {} = 5;", n), true), st(&format!("{};", n), false)], Fail::None, true, true)
            }
            None => template(0, pos, env),
        },
        23 => match env.failed.last() {
            // a name that only a failed line declared is unknown
            Some(n) => line("reference-name-of-failed-line", vec![st(&format!("{};", n), false)], Fail::Compile, false, false),
            None => line("reference-unknown", vec![st("onbekend;", false)], Fail::Compile, false, false),
        },
        24 => {
            // compile failure inside a block at the top level that shadows a global (or declares a new name)
            let n = match env.latest_any() {
                Some(n) => n,
                None => {
                    env.failed.push(g.clone());
                    g.clone()
                }
            };
            line(
                "compile-fail-in-block",
                vec![st(&format!("als ja {{ stel {} = 99; onbekend{}; }};", n, pos), false)],
                Fail::Compile,
                false,
                false,
            )
        }
        27 => {
            // a function changes globals and then fails: the assignments it completed stay
            let z = format!("z{}", pos);
            match (env.latest("int"), env.latest("arr")) {
                (Some(n), arr) => {
                    let mut body = format!("{n} = {n} + 5;", n = n);
                    let mut equiv = vec![format!("{n} = {n} + 5;", n = n)];
                    if let Some(a) = arr {
                        body.push_str(&format!(" {}[0] = string(3);", a));
                        equiv.push(format!("{}[0] = string(3);", a));
                    }
                    let mut l = line(
                        "call-assigns-then-fails",
                        vec![st(&format!("functie {}() {{ {} antwoord [1][9]; }};", z, body), true), st(&format!("{}();", z), false)],
                        Fail::Run(1),
                        false,
                        false,
                    );
                    l.partial_equiv = Some(equiv);
                    l
                }
                (None, _) => template(0, pos, env),
            }
        }
        26 => {
            // a block at the top level with a variable of its own (its slot is free again afterwards)
            let t = format!("t{}", pos);
            match env.latest("int") {
                Some(n) => line(
                    "block-with-local",
                    vec![st(&format!("{{ stel {t} = 3; {n} = {n} + {t}; }};", t = t, n = n), true), st(&format!("{};", n), false)],
                    Fail::None,
                    true,
                    false,
                ),
                None => line(
                    "block-with-local",
                    vec![st(&format!("als ja {{ stel {t} = [\"b\", 2.5]; {t}; }};", t = t), true)],
                    Fail::None,
                    true,
                    false,
                ),
            }
        }
        32 => match (env.latest("fresh"), env.latest("arr")) {
            // an element assignment that fails inside the instruction must leave the global as it was
            (Some(n), _) => line("elem-assign-fails", vec![st(&format!("{}[1] = 5;", n), false)], Fail::Run(0), false, false),
            (None, Some(n)) => line("elem-assign-fails", vec![st(&format!("{}[9] = [{}];", n, n), false)], Fail::Run(0), false, false),
            (None, None) => template(18, pos, env),
        },
        31 => {
            // a global whose current value is null (an `als` without `anders` whose condition is false)
            decl(env, "null");
            line("decl-null", vec![st(&format!("stel {} = als nee {{ 1 }};", g), true)], Fail::None, false, true)
        }
        30 => {
            // a loop at the top level whose body defines a function with a function of its own and calls it
            let i = format!("i{}", pos);
            env.globals.push((i.clone(), "int"));
            line(
                "loop-with-nested-functions",
                vec![
                    st(&format!("stel {} = 0;", i), true),
                    st(
                        &format!(
                            "zolang {i} < 2 {{ {i} = {i} + 1; functie {f}(a) {{ functie binnen(b) {{ stel k = 0; zolang k < b {{ k = k + 1; als k == 1 {{ volgende; }}; }}; [b, k] }}; binnen(a) }}; {f}({i}); }};",
                            i = i,
                            f = f
                        ),
                        true,
                    ),
                    st(&format!("{};", i), false),
                ],
                Fail::None,
                true,
                false,
            )
        }
        28 => match env.latest_any() {
            // an existing global is declared again by a line that fails before the assignment: the
            // earlier declaration and its value stay what they were
            Some(n) => line("redeclare-run-fail", vec![st(&format!("stel {} = [\"q\", [1][5]];", n), false)], Fail::Run(0), false, false),
            None => template(18, pos, env),
        },
        29 => match env.latest("int") {
            // an existing global is declared again (whatever that means in a single program, it means here)
            Some(n) => line("redeclare", vec![st(&format!("stel {} = 8;", n), true), st(&format!("{};", n), false)], Fail::None, true, true),
            None => template(0, pos, env),
        },
        25 => {
            // the user just presses enter (or types blanks / a comment): an empty program
            let text = ["", "   ", "// niets"][pos % 3];
            line("empty", vec![st(text, false)], Fail::None, false, true)
        }
        _ => match env.latest("arr") {
            // a value handed out earlier (the array) receives a fresh element, a collection runs, it is read again
            Some(n) => line(
                "store-into-shared-array",
                vec![
                    st(&format!("{}[1] = string(77);", n), true),
                    st(&format!("functie {}() {{ 1 }};", f), true),
                    st(&format!("{}();", f), false),
                    st(&format!("{};", n), false),
                ],
                Fail::None,
                true,
                true,
            ),
            None => template(3, pos, env),
        },
    }
}

fn enumerated_session(mut code: u64, len: usize) -> Vec<SLine> {
    let mut env = GEnv { globals: Vec::new(), failed: Vec::new() };
    let mut lines = Vec::new();
    for pos in 0..len {
        let t = (code % ALPHABET as u64) as usize;
        code /= ALPHABET as u64;
        let before = env.clone();
        let l = template(t, pos, &mut env);
        // names declared by a line that does not complete are not available afterwards
        match &l.fail {
            Fail::None => {}
            Fail::Run(idx) => {
                // keep only what the completed statements declared: re-derive
                let mut e2 = before.clone();
                let completed: String = l.stmts[..*idx].iter().map(|s| s.src.as_str()).collect::<Vec<_>>().join(" ");
                for (n, k) in env.globals.iter().skip(before.globals.len()) {
                    if completed.contains(&format!("stel {} ", n)) {
                        e2.globals.push((n.clone(), k));
                    }
                }
                env = e2;
            }
            _ => {
                let failed = env.failed.clone();
                env = before;
                env.failed = failed;
            }
        }
        lines.push(l);
    }
    lines
}

// ---------------------------------------------------------------------------------------------
// random sessions

struct SGen<'a> {
    rng: &'a mut Rng,
    globals: Vec<Var>,
    counters: (usize, usize, usize),
    cfg: Swarm,
    /// functions defined on the line being generated (callable on this line only)
    line_funs: Vec<(String, Vec<Ty>, Ty)>,
    /// names declared only by lines that failed to parse or compile
    failed_names: Vec<String>,
}

impl<'a> SGen<'a> {
    fn with_gen<T>(&mut self, f: impl FnOnce(&mut Gen) -> T) -> T {
        let mut g = Gen::new(self.rng, self.cfg.clone());
        g.no_global_writes = true;
        for v in &self.globals {
            g.add_global(v.clone());
        }
        g.set_counters(self.counters.0, self.counters.1, self.counters.2);
        let r = f(&mut g);
        self.counters = g.counters();
        r
    }

    fn fresh(&mut self) -> String {
        let n = format!("v{}", self.counters.0);
        self.counters.0 += 1;
        n
    }

    fn add(&mut self, name: &str, ty: Ty, min_len: usize) {
        self.globals.push(Var {
            name: name.to_string(),
            ty,
            min_len,
            global_top: true,
            frozen: false,
        });
    }

    fn wrap_int(ty: &Ty, e: String) -> String {
        if *ty == Ty::Int {
            format!("({} % 1000003)", e)
        } else {
            e
        }
    }

    /// one atomic-effect or pure statement; returns (stmt, declared var)
    fn atomic_stmt(&mut self) -> (SStmt, Option<(String, Ty, usize)>, &'static str) {
        let depth = 1 + self.rng.usize(3);
        match self.rng.below(10) {
            0 | 1 | 2 => {
                // declaration
                if self.rng.chance(1, 14) {
                    // of a literal the store model understands (int, bool, null, plain text)
                    let name = self.fresh();
                    let (lit, ty) = match self.rng.below(4) {
                        0 => (format!("{}", self.rng.below(1000)), Ty::Int),
                        1 => ((if self.rng.chance(1, 2) { "ja" } else { "nee" }).to_string(), Ty::Bool),
                        2 => ("als nee { 1 }".to_string(), Ty::Null),
                        _ => (format!("\"tekst {}\"", self.rng.below(100)), Ty::Str),
                    };
                    return (st(&format!("stel {} = {};", name, lit), true), Some((name, ty, 0)), "decl");
                }
                let ty = self.with_gen(|g| g.value_ty());
                // now and then of a name that exists already (same type; whatever a second
                // declaration means in a single program, it means in a session)
                let again: Vec<Var> = self.globals.iter().filter(|v| v.ty == ty && !(v.ty == Ty::Str && v.min_len > 0)).cloned().collect();
                if !again.is_empty() && self.rng.chance(1, 8) {
                    let v = self.rng.pick(&again).clone();
                    // (never in terms of itself: should the first declaration have been cut short by
                    // an injected failure, that would read a variable inside its own initialiser, 4.3 item 2)
                    for _ in 0..4 {
                        let e = self.with_gen(|g| g.expr(&ty, depth));
                        if !idents(&e).contains(&v.name) {
                            let e = Self::wrap_int(&ty, e);
                            return (st(&format!("stel {} = {};", v.name, e), true), None, "redecl");
                        }
                    }
                }
                let name = self.fresh();
                if ty == Ty::Str && self.rng.chance(1, 2) {
                    let n = 10 + self.rng.below(99990);
                    return (st(&format!("stel {} = string({});", name, n), true), Some((name, ty, 2)), "decl");
                }
                let e = self.with_gen(|g| g.expr(&ty, depth));
                let e = Self::wrap_int(&ty, e);
                (st(&format!("stel {} = {};", name, e), true), Some((name, ty, 0)), "decl")
            }
            3 | 4 => {
                // assignment to an existing global of the same type (strings with a known length stay)
                let c: Vec<Var> = self.globals.iter().filter(|v| !(v.ty == Ty::Str && v.min_len > 0)).cloned().collect();
                if c.is_empty() {
                    return self.atomic_stmt();
                }
                let v = self.rng.pick(&c).clone();
                let e = self.with_gen(|g| g.expr(&v.ty, depth));
                let e = Self::wrap_int(&v.ty, e);
                (st(&format!("{} = {};", v.name, e), true), None, "assign")
            }
            5 => {
                // element assignment on a global array
                let c: Vec<Var> = self.globals.iter().filter(|v| matches!(&v.ty, Ty::Arr(_, n) | Ty::AnyArr(n) if *n > 0)).cloned().collect();
                if c.is_empty() {
                    return self.atomic_stmt();
                }
                let v = self.rng.pick(&c).clone();
                match &v.ty {
                    Ty::Arr(el, n) => {
                        let (el, n) = ((**el).clone(), *n);
                        let idx = self.with_gen(|g| g.index_for(n));
                        let e = self.with_gen(|g| g.expr(&el, depth));
                        let e = Self::wrap_int(&el, e);
                        (st(&format!("{}[{}] = {};", v.name, idx, e), true), None, "elem-assign")
                    }
                    Ty::AnyArr(n) => {
                        let n = *n;
                        let idx = self.with_gen(|g| g.index_for(n));
                        let ty = self.with_gen(|g| g.value_ty());
                        let e = self.with_gen(|g| g.expr(&ty, depth));
                        (st(&format!("{}[{}] = {};", v.name, idx, e), true), None, "elem-assign")
                    }
                    _ => unreachable!(),
                }
            }
            6 => {
                // in-place change of a fresh string
                let c: Vec<Var> = self.globals.iter().filter(|v| v.ty == Ty::Str && v.min_len > 0).cloned().collect();
                if c.is_empty() {
                    return self.atomic_stmt();
                }
                let v = self.rng.pick(&c).clone();
                let i = self.rng.usize(v.min_len);
                let ch = *self.rng.pick(&["a", "Z", "é", "0"]);
                (st(&format!("{}[{}] = \"{}\";", v.name, i, ch), true), None, "str-elem-assign")
            }
            7 => {
                // self-contained function definition (never called from a later line)
                let name = format!("f{}", self.counters.1);
                self.counters.1 += 1;
                let ret = self.with_gen(|g| g.value_ty());
                let nparams = self.rng.usize(3);
                let params: Vec<Ty> = (0..nparams)
                    .map(|_| match self.rng.below(4) {
                        0 => Ty::Int,
                        1 => Ty::Float,
                        2 => Ty::Bool,
                        _ => Ty::Str,
                    })
                    .collect();
                let lit = self.with_gen(|g| g.function_literal(&name, &params, &ret, 2));
                // remember it for the rest of this line only (caller adds it to the line-local list)
                self.line_funs.push((name.clone(), params, ret));
                (st(&format!("{};", lit), true), None, "func")
            }
            8 if !self.line_funs.is_empty() => {
                // call of a function defined on this line, result kept in a new global
                let (fname, params, ret) = self.rng.pick(&self.line_funs).clone();
                let args: Vec<String> = params.iter().map(|t| self.with_gen(|g| g.expr(t, 1))).collect();
                let name = self.fresh();
                (st(&format!("stel {} = {}({});", name, fname, args.join(", ")), true), Some((name, ret, 0)), "call-decl")
            }
            _ => {
                // pure expression statement (the line's value)
                if !self.globals.is_empty() && self.rng.chance(1, 5) {
                    // a plain read of a global
                    let v = self.rng.pick(&self.globals).name.clone();
                    return (st(&format!("{};", v), false), None, "read");
                }
                if !self.line_funs.is_empty() && self.rng.chance(1, 2) {
                    let (fname, params, _) = self.rng.pick(&self.line_funs).clone();
                    let args: Vec<String> = params.iter().map(|t| self.with_gen(|g| g.expr(t, 1))).collect();
                    return (st(&format!("{}({});", fname, args.join(", ")), false), None, "call");
                }
                let ty = self.with_gen(|g| g.value_ty());
                let e = self.with_gen(|g| g.expr(&ty, depth));
                (st(&format!("{};", e), false), None, "expr")
            }
        }
    }
}

// line-local function list lives beside SGen (kept simple: a field)
impl<'a> SGen<'a> {
    fn new(rng: &'a mut Rng) -> SGen<'a> {
        let mut cfg = Swarm::draw(rng, true);
        cfg.w_print = cfg.w_print.min(1);
        SGen {
            rng,
            globals: Vec::new(),
            counters: (0, 0, 0),
            cfg,
            line_funs: Vec::new(),
            failed_names: Vec::new(),
        }
    }
}

const RUN_FAILS: &[&str] = &["(1 + ja);", "[1, 2][5];", "int(\"x\");", "lengte(1);", "(!5);", "[\"a\", (2.5 + 1)];", "\"abc\"[7];", "[1, 2][-5];", "\"abc\"[-7];", "(nee || \"abc\");", "(string(5) < 1);", "([2.5] * 2);", "(1 / 0);", "(7 % 0);"];
const PARSE_FAILS: &[&str] = &["stel = 1", "(1 + ", "[1, 2", "als { }", "1 +", "stel q 5", "zolang ja", "{ 1; ", "stel q = \"abc", "1 2 )"];

impl<'a> SGen<'a> {
    fn ok_line(&mut self, progressive: bool) -> SLine {
        self.line_funs.clear();
        if progressive {
            // a top-level loop over a global counter: effects are progressive, so no injection here
            let c: Vec<Var> = self.globals.iter().filter(|v| v.ty == Ty::Int).cloned().collect();
            let i = self.fresh();
            let bound = 1 + self.rng.below(4);
            let body = if !c.is_empty() && self.rng.chance(2, 3) {
                let v = self.rng.pick(&c).clone();
                format!("{v} = (({v} + {i}) % 1000003);", v = v.name, i = i)
            } else {
                format!("string({});", i)
            };
            // the loop body may be left early: `volgende` skips the rest once, `stop` ends the loop
            let leave = match self.rng.below(4) {
                0 => format!("als {} == 1 {{ volgende; }}; ", i),
                1 => format!("als {} == 2 {{ stop; }}; ", i),
                2 => format!("als {i} == 1 {{ stel u{i} = [{i}]; volgende; }} anders {{ als {i} > 2 {{ stop; }}; }}; ", i = i),
                _ => String::new(),
            };
            let body = if self.rng.chance(1, 4) {
                // the body also defines a function with a function of its own and calls it
                let a = self.counters.1;
                self.counters.1 += 1;
                format!(
                    "{}{} functie f{a}(p) {{ functie binnen(q) {{ stel k = 0; zolang k < 2 {{ k = k + 1; als k == 1 {{ volgende; }}; }}; [q, k] }}; binnen(p) }}; f{a}({i});",
                    leave,
                    body,
                    a = a,
                    i = i
                )
            } else {
                format!("{}{}", leave, body)
            };
            let l = line(
                "loop",
                vec![
                    st(&format!("stel {} = 0;", i), true),
                    st(&format!("zolang {i} < {b} {{ {i} = {i} + 1; {body} }};", i = i, b = bound, body = body), true),
                    st(&format!("{};", i), false),
                ],
                Fail::None,
                true,
                false,
            );
            self.add(&i, Ty::Int, 0);
            return l;
        }
        if self.rng.chance(1, 16) {
            let text = *self.rng.pick(&["", " ", "// commentaar", "\t"]);
            return line("empty", vec![st(text, false)], Fail::None, false, true);
        }
        if self.rng.chance(1, 10) {
            // a block / branch / loop body at the top level that declares variables of its own
            // (block-scoped globals: their slots are free again afterwards) and changes a global
            let t1 = format!("t{}", self.counters.0);
            self.counters.0 += 1;
            let ty = self.with_gen(|g| g.value_ty());
            let e = self.with_gen(|g| g.expr(&ty, 2));
            let e = Self::wrap_int(&ty, e);
            let targets: Vec<Var> = self.globals.iter().filter(|v| v.ty == ty && !(v.ty == Ty::Str && v.min_len > 0)).cloned().collect();
            let inner = match targets.is_empty() {
                false => {
                    let g = self.rng.pick(&targets).name.clone();
                    format!("stel {t} = {e}; {g} = {t}; {g};", t = t1, e = e, g = g)
                }
                true => format!("stel {t} = {e}; {t};", t = t1, e = e),
            };
            let head = match self.rng.below(3) {
                0 => "".to_string(),
                1 => "als ja ".to_string(),
                _ => {
                    // a loop that runs once
                    let c = format!("t{}", self.counters.0);
                    self.counters.0 += 1;
                    return line(
                        "block-with-local",
                        vec![st(&format!("stel {c} = 0;", c = c), true), st(&format!("zolang {c} < 1 {{ {c} = {c} + 1; {inner} }};", c = c, inner = inner), true)],
                        Fail::None,
                        true,
                        false,
                    );
                }
            };
            return line("block-with-local", vec![st(&format!("{}{{ {} }};", head, inner), true)], Fail::None, true, false);
        }
        if self.rng.chance(1, 12) && !self.globals.is_empty() {
            // a function that changes globals (and returns normally): the whole line completes
            let a = self.counters.1;
            self.counters.1 += 1;
            let mut body: Vec<String> = Vec::new();
            for _ in 0..(1 + self.rng.usize(3)) {
                for _try in 0..6 {
                    let before = self.globals.len();
                    let (s2, _d, lab) = self.atomic_stmt();
                    self.globals.truncate(before);
                    if lab == "assign" || lab == "elem-assign" || lab == "str-elem-assign" {
                        body.push(s2.src);
                        break;
                    }
                }
            }
            self.line_funs.clear();
            if !body.is_empty() {
                let reads: Vec<String> = self.globals.iter().filter(|v| !matches!(v.ty, Ty::Fun(_, _))).map(|v| v.name.clone()).collect();
                let r = self.rng.pick(&reads).clone();
                return line(
                    "call-assigns",
                    vec![
                        st(&format!("functie f{a}(n) {{ als n > 0 {{ f{a}(n - 1); }}; {body} n }};", a = a, body = body.join(" ")), true),
                        st(&format!("f{}({});", a, self.rng.below(3)), false),
                        st(&format!("{};", r), false),
                    ],
                    Fail::None,
                    true,
                    false,
                );
            }
        }
        if !self.failed_names.is_empty() && self.rng.chance(1, 3) {
            // a name that only a failed line declared is free: declare it and read it
            let i = self.rng.usize(self.failed_names.len());
            let name = self.failed_names.remove(i);
            let mut ty = self.with_gen(|g| g.value_ty());
            // (never in terms of itself: 4.3 item 2)
            let mut e = self.with_gen(|g| g.expr(&ty, 2));
            for _ in 0..6 {
                if !idents(&e).contains(&name) {
                    break;
                }
                e = self.with_gen(|g| g.expr(&ty, 0));
            }
            if idents(&e).contains(&name) {
                ty = Ty::Int;
                e = "7".to_string();
            }
            let e = Self::wrap_int(&ty, e);
            let l = line(
                "redeclare-name-of-failed-line",
                vec![st(&format!("stel {} = {};", name, e), true), st(&format!("{};", name), false)],
                Fail::None,
                true,
                true,
            );
            self.add(&name, ty, 0);
            return l;
        }
        let n = 1 + self.rng.usize(4);
        let mut stmts = Vec::new();
        let mut labels = Vec::new();
        let mut pending: Vec<(String, Ty, usize)> = Vec::new();
        for _ in 0..n {
            let (s, d, lab) = self.atomic_stmt();
            labels.push(lab);
            stmts.push(s);
            if let Some((name, ty, ml)) = d {
                // visible to the following statements of the same line too
                self.add(&name, ty.clone(), ml);
                pending.push((name, ty, ml));
            }
        }
        let has_value = stmts.last().map(|s| !s.src.starts_with("stel ") && !s.src.starts_with("functie ")).unwrap_or(false);
        labels.dedup();
        let _ = pending;
        line(&labels.join("+"), stmts, Fail::None, has_value, true)
    }

    fn failing_line(&mut self) -> SLine {
        self.line_funs.clear();
        match self.rng.below(7) {
            0 => {
                // parse failure, possibly after valid statements on the same line
                let mut stmts = Vec::new();
                let before = self.globals.len();
                let saved = self.counters;
                if self.rng.chance(1, 2) {
                    let (s, d, _) = self.atomic_stmt();
                    stmts.push(s);
                    if let Some((name, _, _)) = d {
                        self.failed_names.push(name);
                    }
                }
                self.globals.truncate(before);
                self.line_funs.clear();
                let _ = saved;
                stmts.push(st(*self.rng.pick(PARSE_FAILS), false));
                line("parse-fail", stmts, Fail::Parse, false, false)
            }
            1 | 2 => {
                // compile failure at a random statement position and nesting depth
                let before = self.globals.len();
                let k = self.rng.usize(3);
                let mut stmts = Vec::new();
                let mut declared_here: Vec<String> = Vec::new();
                for _ in 0..k {
                    let (s, d, _) = self.atomic_stmt();
                    stmts.push(s);
                    if let Some((name, ty, ml)) = d {
                        declared_here.push(name.clone());
                        self.add(&name, ty, ml);
                    }
                }
                let u = format!("onbekend{}", self.counters.0);
                // the failing block may shadow an existing global or declare a new name
                let shadow: Option<String> = if before > 0 && self.rng.chance(1, 2) { Some(self.globals[self.rng.usize(before)].name.clone()) } else { None };
                let bad = match self.rng.below(8) {
                    0 => format!("{};", u),
                    1 => "stop;".to_string(),
                    2 => "volgende;".to_string(),
                    6 if !self.failed_names.is_empty() => format!("{};", self.rng.pick(&self.failed_names)),
                    3 | 6 | 7 => {
                        let t = match shadow {
                            Some(n) => n,
                            None => {
                                let t = format!("t{}", self.counters.0);
                                declared_here.push(t.clone());
                                t
                            }
                        };
                        let kw = if self.rng.chance(1, 3) { "zolang nee" } else { "als ja" };
                        format!("{} {{ stel {} = 1; {}; }};", kw, t, u)
                    }
                    4 => format!("functie f{}(a) {{ stel b = [a]; {{ {} }} }};", self.counters.1 + 50, u),
                    _ => format!("stel w{} = [1, \"s\", {}];", self.counters.0, u),
                };
                stmts.push(st(&bad, false));
                // nothing of this line exists afterwards
                self.globals.truncate(before);
                self.line_funs.clear();
                self.failed_names.extend(declared_here);
                line("compile-fail", stmts, Fail::Compile, false, false)
            }
            _ => {
                // run-time failure after j complete statements
                let j = self.rng.usize(3);
                let mut stmts = Vec::new();
                for _ in 0..j {
                    let (s, d, _) = self.atomic_stmt();
                    stmts.push(s);
                    if let Some((name, ty, ml)) = d {
                        self.add(&name, ty, ml);
                    }
                }
                if self.rng.chance(1, 4) && !self.globals.is_empty() {
                    // a function changes globals (1-3 assignments) and then fails: what it completed stays
                    let a = self.counters.1;
                    self.counters.1 += 1;
                    let mut equiv: Vec<String> = Vec::new();
                    for _ in 0..(1 + self.rng.usize(3)) {
                        for _try in 0..6 {
                            let before = self.globals.len();
                            let (s2, d, lab) = self.atomic_stmt();
                            self.globals.truncate(before);
                            let _ = d;
                            if lab == "assign" || lab == "elem-assign" || lab == "str-elem-assign" {
                                equiv.push(s2.src);
                                break;
                            }
                        }
                    }
                    self.line_funs.clear();
                    if !equiv.is_empty() {
                        let fail = self.rng.pick(RUN_FAILS).to_string();
                        let deep = self.rng.chance(1, 2);
                        let def = if deep {
                            format!("functie f{a}() {{ functie diep() {{ {fail} 0 }}; {body} diep(); 1 }};", a = a, fail = fail, body = equiv.join(" "))
                        } else {
                            format!("functie f{a}() {{ {body} {fail} 1 }};", a = a, fail = fail, body = equiv.join(" "))
                        };
                        stmts.push(st(&def, true));
                        let idx = stmts.len();
                        stmts.push(st(&format!("f{}();", a), false));
                        let mut l = line("call-assigns-then-fails", stmts, Fail::Run(idx), false, false);
                        l.partial_equiv = Some(equiv);
                        return l;
                    }
                }
                let bad = match self.rng.below(5) {
                    4 => {
                        // element assignment far outside a fresh string / a list, below its start or past its end
                        let n = self.fresh();
                        let idx = *self.rng.pick(&["-9", "7", "-4", "3"]);
                        if self.rng.chance(1, 2) {
                            stmts.push(st(&format!("stel {} = string(123);", n), true));
                            format!("{n}[{i}] = \"x\";", n = n, i = idx)
                        } else {
                            stmts.push(st(&format!("stel {} = [1.5, \"b\", 2];", n), true));
                            format!("{n}[{i}] = [{n}];", n = n, i = idx)
                        }
                    }
                    0 => {
                        // inside a call chain
                        let a = self.counters.1;
                        self.counters.1 += 2;
                        stmts.push(st(&format!("functie f{}(a) {{ stel l = [a, \"k\"]; [l, {}] }};", a, self.rng.pick(RUN_FAILS).trim_end_matches(';')), true));
                        stmts.push(st(&format!("functie f{}() {{ f{}(\"p\") }};", a + 1, a), true));
                        format!("[\"q\", f{}()];", a + 1)
                    }
                    1 => {
                        // inside a loop inside a function
                        let a = self.counters.1;
                        self.counters.1 += 1;
                        stmts.push(st(
                            &format!("functie f{}() {{ stel i = 0; zolang i < 3 {{ i = i + 1; als i == 2 {{ {} }}; }}; i }};", a, self.rng.pick(RUN_FAILS)),
                            true,
                        ));
                        format!("f{}();", a)
                    }
                    3 if self.rng.chance(1, 2) && self.globals.iter().any(|v| (v.ty == Ty::Str && v.min_len > 0) || matches!(&v.ty, Ty::Arr(_, n) | Ty::AnyArr(n) if *n > 0)) => {
                        // an element assignment on an existing global fails inside the instruction (wrong
                        // kind of value or of index, in range and out of range): it must not have changed
                        // the global half-way
                        let c: Vec<Var> = self.globals.iter().filter(|v| (v.ty == Ty::Str && v.min_len > 0) || matches!(&v.ty, Ty::Arr(_, n) | Ty::AnyArr(n) if *n > 0)).cloned().collect();
                        let v = self.rng.pick(&c).clone();
                        if v.ty == Ty::Str {
                            let i = self.rng.usize(v.min_len);
                            match self.rng.below(5) {
                                0 => format!("{}[{}] = 5;", v.name, i),
                                1 => format!("{}[{}] = [\"x\"];", v.name, i),
                                2 => format!("{}[{}] = 2.5;", v.name, i),
                                3 => format!("{}[ja] = \"x\";", v.name),
                                _ => format!("{}[{}] = \"x\";", v.name, 40 + i),
                            }
                        } else {
                            match self.rng.below(3) {
                                0 => format!("{}[99] = [1.5];", v.name),
                                1 => format!("{}[\"x\"] = 1;", v.name),
                                _ => format!("{}[-99] = string(3);", v.name),
                            }
                        }
                    }
                    3 if !self.globals.is_empty() => {
                        // an existing global is declared again by a statement that fails before the assignment
                        let a = self.rng.pick(&self.globals).name.clone();
                        format!("stel {} = [0, {}];", a, self.rng.pick(RUN_FAILS).trim_end_matches(';'))
                    }
                    2 if !self.globals.is_empty() => {
                        // the failure strikes while values of global variables are pending operands
                        let a = self.rng.pick(&self.globals).name.clone();
                        let b = self.rng.pick(&self.globals).name.clone();
                        format!("[{}, [{}, {}]];", a, b, self.rng.pick(RUN_FAILS).trim_end_matches(';'))
                    }
                    _ => self.rng.pick(RUN_FAILS).to_string(),
                };
                let idx = stmts.len();
                stmts.push(st(&bad, false));
                self.line_funs.clear();
                line("run-fail", stmts, Fail::Run(idx), false, false)
            }
        }
    }
}

fn random_session(rng: &mut Rng) -> SessionSpec {
    let nlines = 2 + rng.usize(11);
    let fail_ratio = 10 + rng.below(40);
    let collect_every_step = rng.chance(1, 4);
    let alloc_mode = match rng.below(4) {
        0 => alloc::MOVE,
        1 => alloc::POISON,
        // (no extra draw, so the sessions themselves stay what they were) boxes scattered over all alignments
        2 => alloc::SCATTER0 + ((nlines as u64 * 41 + fail_ratio) % 200) as u8,
        _ => alloc::PLAIN,
    };
    let mut g = SGen::new(rng);
    let mut lines = Vec::new();
    for _ in 0..nlines {
        let l = if g.rng.below(100) < fail_ratio {
            g.failing_line()
        } else {
            let progressive = g.rng.chance(1, 8);
            g.ok_line(progressive)
        };
        lines.push(l);
    }
    // optionally one injected failure in an injectable line (position chosen now, step chosen by the caller)
    let caller_releases = rng.chance(2, 3);
    let recycle = caller_releases && rng.chance(1, 3);
    let alloc_mode = if recycle { alloc::RECYCLE } else { alloc_mode };
    SessionSpec {
        lines,
        crash: None,
        compile_crash: None,
        collect_every_step,
        alloc_mode,
        caller_releases,
        ledger: false,
        recycle,
    }
}

// ---------------------------------------------------------------------------------------------
// directed sessions

fn directed(i: usize) -> Option<SessionSpec> {
    let mk = |lines: Vec<SLine>| SessionSpec { lines, crash: None, compile_crash: None, collect_every_step: false, alloc_mode: alloc::PLAIN, caller_releases: i % 2 == 0, ledger: false, recycle: i % 4 == 0 };
    match i {
        0 => {
            // many failing lines that each leave operands and frames behind, then function calls
            let mut lines = Vec::new();
            for k in 0..400 {
                let pad: Vec<String> = (0..170).map(|j| format!("{}", j)).collect();
                // an anonymous function called on the spot: no top-level effect, so the model does not grow
                lines.push(line(
                    "run-fail-residue",
                    vec![st(
                        &format!("[\"x\", functie() {{ functie r(a) {{ [{pad}, 1 + ja] }}; [{k}, 2, r(3)] }}()];", k = k, pad = pad.join(", ")),
                        false,
                    )],
                    Fail::Run(0),
                    false,
                    false,
                ));
            }
            lines.push(line("decl-int", vec![st("stel na = 5;", true)], Fail::None, false, true));
            lines.push(line(
                "func-call-value",
                vec![st("functie fib(n) { als n < 2 { antwoord n; }; fib(n - 1) + fib(n - 2) };", true), st("fib(10) + na;", false)],
                Fail::None,
                true,
                true,
            ));
            Some(mk(lines))
        }
        1 => {
            // a failing compile inside nested blocks/functions, then a declaration and a function reading it
            Some(mk(vec![
                line("decl-int", vec![st("stel a = 1;", true)], Fail::None, false, true),
                line("compile-fail-nested", vec![st("functie kapot(p) { stel q = [p]; { { stel r = 2; onbekend_x } } };", false)], Fail::Compile, false, false),
                line("decl-int", vec![st("stel b = 2;", true)], Fail::None, false, true),
                line(
                    "func-call-value",
                    vec![st("functie leest() { stel l = 10; a + b + l };", true), st("leest();", false)],
                    Fail::None,
                    true,
                    true,
                ),
                line("compile-fail-loop", vec![st("zolang nee { als ja { stop; }; onbekend_y; };", false)], Fail::Compile, false, false),
                line("loop", vec![st("stel k = 0;", true), st("zolang k < 3 { k = k + 1; als k == 2 { stop; }; };", true), st("k;", false)], Fail::None, true, false),
            ]))
        }
        2 => {
            // heap-valued globals read, mutated and collected on later lines
            Some(mk(vec![
                line("decl-fresh-str", vec![st("stel s = string(4711);", true)], Fail::None, false, true),
                line("decl-arr", vec![st("stel a = [s, 2.5, [\"in\"]];", true)], Fail::None, false, true),
                line("func-call-value", vec![st("functie f() { [\"tmp\", 1.5] };", true), st("f();", false)], Fail::None, true, true),
                line("read", vec![st("a;", false)], Fail::None, true, true),
                line("str-elem-assign", vec![st("s[0] = \"X\";", true)], Fail::None, true, true),
                line("elem-assign", vec![st("a[1] = string(99);", true)], Fail::None, true, true),
                line("func-call-value", vec![st("functie g() { 0 };", true), st("g();", false)], Fail::None, true, true),
                line("read", vec![st("[a, s];", false)], Fail::None, true, true),
                line("run-fail", vec![st("stel t = [a, \"nieuw\"];", true), st("[1][2];", false)], Fail::Run(1), false, false),
                line("read", vec![st("t;", false)], Fail::None, true, true),
            ]))
        }
        3 => {
            // compile failure whose valid prefix must not run later
            Some(mk(vec![
                line("decl-int", vec![st("stel a = 1;", true)], Fail::None, false, true),
                line("compile-fail-after-assign", vec![st("stel b = 2;", true), st("a = [b, onbekend];", false)], Fail::Compile, false, false),
                line("read", vec![st("a;", false)], Fail::None, true, true),
                line("compile-fail-stop", vec![st("stop;", false)], Fail::Compile, false, false),
                line("read", vec![st("2;", false)], Fail::None, true, true),
            ]))
        }
        4 => {
            // a value handed out on one line keeps being used through a global on later lines
            Some(mk(vec![
                line("decl-arr", vec![st("stel a = [1, 2];", true)], Fail::None, false, true),
                line("read", vec![st("a;", false)], Fail::None, true, true),
                line("elem-assign", vec![st("a[0] = string(5);", true)], Fail::None, true, true),
                line("func-call-value", vec![st("functie f() { 1 };", true), st("f();", false)], Fail::None, true, true),
                line("read", vec![st("a;", false)], Fail::None, true, true),
                line("read", vec![st("a[0];", false)], Fail::None, true, true),
            ]))
        }
        5 => {
            // run-time failures in every position of a statement, then reads
            Some(mk(vec![
                line("decl-arr", vec![st("stel a = [\"x\", 1.5];", true)], Fail::None, false, true),
                line("run-fail", vec![st("a[0] = [a, 1 + ja];", false)], Fail::Run(0), false, false),
                line("read", vec![st("a;", false)], Fail::None, true, true),
                line("run-fail", vec![st("functie f(p) { stel q = [p, p]; q[5] };", true), st("stel b = [a, f(a)];", false)], Fail::Run(1), false, false),
                line("read", vec![st("a[1];", false)], Fail::None, true, true),
                line("func-call-value", vec![st("functie g(n) { als n < 1 { antwoord [n]; }; [n, g(n - 1)] };", true), st("g(5);", false)], Fail::None, true, true),
            ]))
        }
        6 => {
            // DESIGN.md 4.3 item 9: a name declared by the part of a line that never completed
            Some(mk(vec![
                line("run-fail-mid-statement", vec![st("stel x = 1 + ja;", false)], Fail::Run(0), false, false),
                line("read", vec![st("x;", false)], Fail::None, true, true),
            ]))
        }
        7 => {
            // the same, with a later declaration in between (the machine pads its globals)
            Some(mk(vec![
                line("run-fail-mid-statement", vec![st("stel x = [1, 2][5];", false)], Fail::Run(0), false, false),
                line("decl-int", vec![st("stel y = 2;", true)], Fail::None, false, true),
                line("read", vec![st("[x, y];", false)], Fail::None, true, true),
            ]))
        }
        8 => {
            // results handed out while variables still refer to them, then changed through the variables
            Some(mk(vec![
                line("decl-arr", vec![st("stel a = [[1.5], \"s\"];", true)], Fail::None, false, true),
                line("read", vec![st("a;", false)], Fail::None, true, true),
                line("elem-assign", vec![st("a[1] = [string(5), a];", true), st("0;", false)], Fail::None, true, true),
                line("func-call-value", vec![st("functie f() { [2.5] };", true), st("f();", false)], Fail::None, true, true),
                line("read", vec![st("a;", false)], Fail::None, true, true),
                line("decl-arr", vec![st("stel b = [a, string(6)];", true)], Fail::None, false, true),
                line("read", vec![st("b;", false)], Fail::None, true, true),
                line("elem-assign", vec![st("b[1] = float(7);", true), st("a[0] = b;", true), st("1;", false)], Fail::None, true, true),
                line("func-call-value", vec![st("functie g() { 0 };", true), st("g();", false), st("[a, b];", false)], Fail::None, true, true),
            ]))
        }
        9 => {
            // many heap-valued globals over many lines (more globals than the machine reserves up front,
            // more managed objects than one bitmap word), collections in between, everything read at the end
            let mut lines = Vec::new();
            for k in 0..70 {
                lines.push(line("decl-arr", vec![st(&format!("stel h{k} = [string({k}), {k}.5, [\"in{k}\"]];", k = k), true)], Fail::None, false, k % 10 == 5));
                if k % 10 == 9 {
                    lines.push(line(
                        "func-call-value",
                        vec![st(&format!("functie c{k}() {{ [\"tmp\", {k}.25] }};", k = k), true), st(&format!("c{k}();", k = k), false)],
                        Fail::None,
                        true,
                        true,
                    ));
                    lines.push(line("run-fail", vec![st(&format!("h{}[0] = [h{}, 1 + ja];", k, k - 1), false)], Fail::Run(0), false, false));
                }
            }
            lines.push(line("read", vec![st("[h0, h35, h69];", false)], Fail::None, true, true));
            lines.push(line("read", vec![st("h12[0];", false)], Fail::None, true, true));
            Some(mk(lines))
        }
        10 => {
            // lines that declare dozens of globals at once (the globals vector and the symbol table grow
            // in big steps), lines that fail to compile or fail at run time after declaring dozens more,
            // then everything that should exist is read and everything that should not is referenced
            let mut lines = Vec::new();
            for k in 0..6 {
                let decls: Vec<SStmt> = (0..40)
                    .map(|j| st(&format!("stel m{k}x{j} = {};", if j % 3 == 0 { format!("string({})", k * 100 + j) } else if j % 3 == 1 { format!("[{}.5, \"s{}\"]", j, k) } else { format!("{}", k * 100 + j) }, k = k, j = j), true))
                    .collect();
                lines.push(line("decl-many", decls, Fail::None, false, k == 2));
                // fails in the compiler after 30 more declarations
                let mut bad: Vec<SStmt> = (0..30).map(|j| st(&format!("stel weg{k}x{j} = [{j}, \"w\"];", k = k, j = j), true)).collect();
                bad.push(st(&format!("onbekend{};", k), false));
                lines.push(line("compile-fail-after-many-decls", bad, Fail::Compile, false, false));
                // fails at run time after 10 more declarations
                let mut half: Vec<SStmt> = (0..10).map(|j| st(&format!("stel half{k}x{j} = string({j});", k = k, j = j), true)).collect();
                half.push(st("[1][7];", false));
                lines.push(line("run-fail-after-decls", half, Fail::Run(10), false, false));
                lines.push(line(
                    "func-call-value",
                    vec![st(&format!("functie cc{k}() {{ [m{k}x0, m{k}x1] }};", k = k), true), st(&format!("cc{k}();", k = k), false)],
                    Fail::None,
                    true,
                    true,
                ));
            }
            lines.push(line("read", vec![st("[m0x0, m0x39, m3x1, m5x38, half0x9, half5x0];", false)], Fail::None, true, true));
            lines.push(line("reference-name-of-failed-line", vec![st("weg3x7;", false)], Fail::Compile, false, false));
            lines.push(line("read", vec![st("[m5x39, m2x4, half2x2];", false)], Fail::None, true, true));
            Some(mk(lines))
        }
        11 => {
            // lines with functions inside loops inside functions, early exits at every level, branches as
            // values: every compilation step of each of them is a crash point (open contexts, scopes,
            // loop contexts, unpatched jumps), and the lines after them observe what is left
            let nest = |n: usize| {
                format!(
                    "stel n{n} = 0; zolang n{n} < 4 {{ n{n} = n{n} + 1; functie binnen{n}(a) {{ stel r = [a]; zolang a > 0 {{ a = a - 1; als a == 1 {{ volgende; }} anders {{ als a > 5 {{ stop; }}; }}; functie diep(b) {{ als b > 1 {{ antwoord [b, \"d\"]; }}; [b] }}; r = [r, diep(a)]; }}; r }}; als lengte(binnen{n}(n{n})) > 5 {{ stop; }}; }}; n{n};",
                    n = n
                )
            };
            let mut lines = Vec::new();
            for n in 0..3 {
                let text = nest(n);
                let mut l = line("nested-loops-and-functions", vec![st(&text, true)], Fail::None, true, false);
                l.stmts = vec![st(&text, true)];
                lines.push(l);
                lines.push(line("decl-arr", vec![st(&format!("stel na{} = [\"na\", {}.5];", n, n), true)], Fail::None, false, true));
                lines.push(line("compile-fail-nested", vec![st(&format!("zolang ja {{ functie f{n}(a) {{ zolang a {{ als a {{ stop; }}; onbekend{n}; }}; }}; }};", n = n), false)], Fail::Compile, false, false));
                lines.push(line("read", vec![st(&format!("[n{}, na{}];", n, n), false)], Fail::None, true, true));
            }
            Some(mk(lines))
        }
        12 => {
            // lines that fail hundreds of calls deep (naturally and by injection), several times; then
            // lines that call and recurse deeply and must still work: whatever a failed line leaves
            // behind per frame adds up
            let mut lines = Vec::new();
            lines.push(line("decl-arr", vec![st("stel basis = [\"b\", 2.5];", true)], Fail::None, false, true));
            for k in 0..6 {
                lines.push(line(
                    "run-fail-deep",
                    vec![
                        st(&format!("functie diep{k}(n) {{ als n < 1 {{ antwoord [basis, 1 + ja]; }}; [n, diep{k}(n - 1)] }};", k = k), true),
                        st(&format!("diep{}(300);", k), false),
                    ],
                    Fail::Run(1),
                    false,
                    false,
                ));
                lines.push(line(
                    "recursion-ok",
                    vec![
                        st(&format!("functie tel{k}(n) {{ als n < 1 {{ antwoord 0; }}; 1 + tel{k}(n - 1) }};", k = k), true),
                        st(&format!("tel{}(250);", k), false),
                    ],
                    Fail::None,
                    true,
                    k == 3,
                ));
            }
            lines.push(line("read", vec![st("basis;", false)], Fail::None, true, true));
            Some(mk(lines))
        }
        13 => {
            // the value of a line shares structure with a value handed out earlier: an array that the
            // caller already owns gets a fresh element inside a function that also drops the last
            // variable referring to it, and is the function's (and the line's) value
            let mut lines = Vec::new();
            lines.push(line("decl-arr", vec![st("stel g = [0, \"x\"];", true)], Fail::None, false, true));
            lines.push(line("read", vec![st("g;", false)], Fail::None, true, true));
            lines.push(line(
                "return-handed-out-array",
                vec![st("functie f() { stel t = g; g = 0; t[0] = 1.5 + 1.0; t };", true), st("f();", false)],
                Fail::None,
                true,
                false,
            ));
            lines.push(line("func-call-value", vec![st("functie h() { [2.5] };", true), st("h();", false)], Fail::None, true, true));
            lines.push(line("decl-arr", vec![st("stel k = [string(4)];", true)], Fail::None, false, true));
            lines.push(line("read", vec![st("k;", false)], Fail::None, true, true));
            lines.push(line("return-handed-out-array", vec![st("k[0] = string(6);", true), st("[k, k = 0];", false)], Fail::None, true, false));
            lines.push(line("read", vec![st("g;", false)], Fail::None, true, true));
            Some(mk(lines))
        }
        _ => None,
    }
}

/// The last SWEEP scenarios of the C17 check: the *offset sweep* (wave 16, seeded change d17b). A line is compiled at
/// offset 0 of its own compilation unit in a session and behind all earlier code in the growing
/// program; its meaning must not depend on where its code lies. Session `o` is a padding line whose
/// code is exactly `o` bytes long (`ja;` = 2 bytes, `!ja;` = 3 bytes) followed by a line full of
/// jumps (loop, `stop`, `volgende`, branches, a function with a loop of its own, called in the loop):
/// over the sweep every jump target of that line takes every value in a window of SWEEP bytes in the
/// model program - whatever magic value, operand-width boundary or alignment a compiler shortcut
/// might stumble over.
pub const SWEEP_BYTES: u64 = 2048;
/// ... followed by the *constant-index sweep*: the padding line consists of k statements with k
/// distinct literals (k = 0 .. 639; the literal pool restarts with every session line and accumulates
/// in the growing program, so the second line's literals - numbers, texts, floats, inside and outside
/// a function - get the indices k .. k+n in the model and 0 .. n in the session, crossing 256 and 512).
pub const SWEEP_CONSTS: u64 = 640;
pub const SWEEP: u64 = SWEEP_BYTES + SWEEP_CONSTS;

fn const_sweep(k: usize) -> Vec<SLine> {
    let pad: Vec<SStmt> = (0..k).map(|j| st(&format!("{};", 100_000 + j), false)).collect();
    let observer = vec![
        st("stel w = [7, 2.25, \"tekst\", 100000, 100255, 100256];", true),
        st("functie h(a) { stel l = [a, 3.5, \"in\", 11, 100001]; als a > 1 { l[0] = h(a - 1); }; l };", true),
        st("[w, h(3), 12.5, \"uit\", 13];", false),
    ];
    vec![line("pad-consts", pad, Fail::None, k > 0, false), line("literals", observer, Fail::None, true, false)]
}

fn offset_sweep(o: usize) -> Vec<SLine> {
    if o as u64 >= SWEEP_BYTES {
        return const_sweep(o - SWEEP_BYTES as usize);
    }
    let o = o.max(2);
    let threes = o % 2;
    let twos = (o - 3 * threes.min(o / 3)) / 2;
    let mut pad: Vec<SStmt> = Vec::new();
    for _ in 0..twos {
        pad.push(st("ja;", false));
    }
    for _ in 0..threes {
        pad.push(st("!ja;", false));
    }
    let observer = if o % 3 == 0 {
        vec![
            st("stel n = 0;", true),
            st("stel i = 0;", true),
            st("zolang i < 7 { i = i + 1; als i == 2 { volgende; }; als i > 5 { stop; } anders { n = n + i; }; n = n + als i % 2 == 0 { 10 } anders als i == 3 { 100 } anders { 1000 }; };", false),
            st("[n, i];", false),
        ]
    } else {
        vec![
            st("stel n = 0;", true),
            st("stel i = 0;", true),
            st("zolang i < 6 { i = i + 1; als i == 2 { volgende; }; als i > 4 { stop; } anders { n = n + i; }; functie g(k) { stel j = 0; zolang ja { j = j + 1; als j > k { stop; }; als j == 1 { volgende; }; }; j }; n = n + g(i); };", false),
            st("[n, i];", false),
        ]
    };
    vec![line("pad", pad, Fail::None, true, false), line("jumps", observer, Fail::None, true, false)]
}

pub const DIRECTED: u64 = 14;

/// a short random session (Miri adjunct)
pub fn small_session(seed: u64, i: u64) -> SessionSpec {
    if i < 3 {
        return directed([2usize, 4, 8][i as usize]).unwrap();
    }
    let mut rng = Rng::new(mix(seed, TAG ^ 0x77, i));
    let mut sp = random_session(&mut rng);
    sp.lines.truncate(5);
    sp.alloc_mode = alloc::PLAIN;
    sp
}

// ---------------------------------------------------------------------------------------------
// scenarios

/// Quick tier: besides all sessions of length 1-2, every "sandwich" of three lines
/// (a declaration, any failing template, an observing template) - the length-3 sessions that matter most.
const SANDWICH_SETUP: &[usize] = &[0, 2, 3, 30, 31];
const SANDWICH_FAIL: &[usize] = &[12, 13, 14, 15, 16, 17, 18, 23, 24, 27, 28, 32];
const SANDWICH_OBSERVE: &[usize] = &[5, 6, 7, 9, 10, 19, 20, 21, 22, 26];

fn sandwiches() -> u64 {
    (SANDWICH_SETUP.len() * SANDWICH_FAIL.len() * SANDWICH_OBSERVE.len()) as u64
}

pub fn enumerated_count(tier: Tier) -> u64 {
    let a = ALPHABET as u64;
    match tier {
        Tier::Quick => a + a * a + sandwiches(),
        Tier::Thorough => a + a * a + a * a * a,
    }
}

pub fn random_count(tier: Tier) -> u64 {
    match tier {
        Tier::Quick => 12_000,
        Tier::Thorough => 250_000,
    }
}

pub fn scenarios(tier: Tier) -> u64 {
    DIRECTED + enumerated_count(tier) + random_count(tier) + SWEEP
}

fn report(acc: &mut Acc, spec: &SessionSpec, r: &SessionResult, seed: u64, index: u64) {
    for f in &r.findings {
        if f.class.starts_with("harness:") {
            acc.count("harness_findings", 1);
            continue;
        }
        let mut sp = spec.to_json();
        sp["expect"] = json!({"class": f.class, "key": f.key});
        acc.violation(Violation {
            property: PROPERTY.into(),
            class: f.class.clone(),
            key: f.key.clone(),
            detail: f.detail.clone(),
            spec: sp,
            seed,
            index,
        });
    }
}

fn account(acc: &mut Acc, spec: &SessionSpec, r: &SessionResult) {
    acc.count("sessions", 1);
    acc.count("lines", r.lines_run as u64);
    acc.count("sim_steps", r.steps);
    acc.count("model_steps", r.model_steps);
    acc.count("collections", r.collections);
    acc.count("probe_lines_run_after_a_failed_line", r.lines_after_failure);
    if r.inconsistent {
        acc.count("sessions_discarded_inconsistent", 1);
        if std::env::var("NLSIM_DEBUG_INCONSISTENT").is_ok() && !r.inconsistent_why.is_empty() {
            eprintln!("INCONSISTENT {}", r.inconsistent_why);
        }
    }
    if r.injected_fired {
        acc.count("fault_injected_failure_fired", 1);
    }
    if r.compile_injected_fired {
        acc.count("fault_injected_compile_failure_fired", 1);
    }
    acc.count("probe_line_after_injection_judged_by_model_alone", r.lines_judged_by_model_alone);
    if r.read_poisoned {
        acc.count("probe_line_read_a_name_declared_by_a_failed_line", 1);
    }
    if r.heap_values_crossed_lines {
        acc.count("probe_heap_value_on_later_line", 1);
    }
    if spec.collect_every_step {
        acc.count("sessions_with_collection_at_every_step", 1);
    }
    if spec.recycle {
        acc.count("sessions_with_recycled_addresses_no_quarantine", 1);
    }
    if spec.caller_releases {
        acc.count("sessions_where_the_caller_releases_unreferenced_values_early", 1);
        acc.count("fault_caller_released_a_handed_out_value_mid_session", r.released_early);
    }
    for l in &spec.lines[..r.lines_run.min(spec.lines.len())] {
        match &l.fail {
            Fail::Parse => acc.count("fault_parse_failure", 1),
            Fail::Compile => acc.count("fault_compile_failure", 1),
            Fail::Run(_) => acc.count("fault_runtime_failure", 1),
            Fail::None => {}
        }
    }
    let mut f = Fold::new();
    f.str(&r.skeleton);
    if let Some((a, b, c)) = r.crash_tuple {
        f.u64(a as u64);
        f.u64(b as u64);
        f.u64(c);
        if a >= 2 {
            acc.count("probe_injected_failure_inside_a_call", 1);
        }
        if b >= 2 {
            acc.count("probe_injected_failure_with_pending_operands", 1);
        }
    }
    acc.distinct("session_skeletons_x_crash_states", f.0);
    if r.lines_after_failure > 0 && !r.inconsistent {
        acc.distinct("nontrivial_cases", r.log);
    }
}

/// Runs the base session and, for every injectable line, the session with a failure injected at
/// every instruction k of that line (`all_k`) or at a few seeded ones.
fn explore(acc: &mut Acc, base: &SessionSpec, seed: u64, index: u64, all_k: bool, rng: &mut Rng) -> u64 {
    acc.begin(&base.to_json());
    let r0 = run_session(base, false);
    account(acc, base, &r0);
    report(acc, base, &r0, seed, index);
    let mut log = Fold::new();
    log.u64(r0.log);
    if r0.inconsistent || !r0.findings.is_empty() {
        return log.0;
    }
    for (li, l) in base.lines.iter().enumerate() {
        if !l.injectable || li >= r0.line_steps.len() {
            continue;
        }
        let n = r0.line_steps[li];
        let ks: Vec<u64> = if all_k || n <= 12 {
            (0..n).collect()
        } else {
            let mut v: Vec<u64> = (0..4).map(|_| rng.below(n)).collect();
            v.sort();
            v.dedup();
            v
        };
        for k in ks {
            let mut sp = base.clone();
            sp.crash = Some((li, k));
            acc.begin(&sp.to_json());
            let r = run_session(&sp, false);
            account(acc, &sp, &r);
            report(acc, &sp, &r, seed, index);
            log.u64(r.log);
        }
    }
    // compile-time abort points: every line that reaches the compiler, at every compilation step
    // (all of them for enumerated sessions, a seeded handful per line otherwise)
    for li in 0..base.lines.len().min(r0.line_compile_steps.len()) {
        let n = r0.line_compile_steps[li];
        if n == 0 {
            continue;
        }
        let ks: Vec<u64> = if all_k || n <= 6 {
            (0..n).collect()
        } else {
            let mut v: Vec<u64> = (0..3).map(|_| rng.below(n)).collect();
            v.sort();
            v.dedup();
            v
        };
        for k in ks {
            let mut sp = base.clone();
            sp.compile_crash = Some((li, k));
            acc.begin(&sp.to_json());
            let r = run_session(&sp, false);
            account(acc, &sp, &r);
            report(acc, &sp, &r, seed, index);
            log.u64(r.log);
        }
    }
    log.0
}

pub fn scenario(acc: &mut Acc, seed: u64, index: u64, tier: Tier) {
    let s = mix(seed, TAG, index);
    let mut rng = Rng::new(s);
    let h;
    if index >= DIRECTED + enumerated_count(tier) + random_count(tier) && index < scenarios(tier) {
        let o = (index - (DIRECTED + enumerated_count(tier) + random_count(tier))) as usize;
        let sp = SessionSpec { lines: offset_sweep(o), crash: None, compile_crash: None, collect_every_step: false, alloc_mode: alloc::PLAIN, caller_releases: o % 2 == 0, ledger: false, recycle: false };
        acc.count("offset_sweep_sessions", 1);
        h = explore(acc, &sp, seed, index, false, &mut rng);
    } else if index < DIRECTED {
        let sp = directed(index as usize).unwrap();
        acc.count("directed_sessions", 1);
        h = explore(acc, &sp, seed, index, index != 0 && index != 9 && index != 10 && index != 12, &mut rng);
        if index == 2 {
            acc.sample(json!({"directed_session": sp.lines.iter().map(|l| l.text()).collect::<Vec<_>>()}));
        }
    } else if index < DIRECTED + enumerated_count(tier) {
        // complete enumeration of sessions of length 1, 2 (and 3 in the thorough tier) over the alphabet
        let mut code = index - DIRECTED;
        let a = ALPHABET as u64;
        let len = if code < a {
            1
        } else if code < a + a * a {
            code -= a;
            2
        } else if tier == Tier::Quick {
            // sandwich: encode (setup, fail, observe) as a base-ALPHABET number, first line = lowest digit
            code -= a + a * a;
            let so = SANDWICH_SETUP.len() as u64;
            let fo = SANDWICH_FAIL.len() as u64;
            let (i0, rest) = (code % so, code / so);
            let (i1, i2) = (rest % fo, rest / fo);
            code = SANDWICH_SETUP[i0 as usize] as u64 + a * (SANDWICH_FAIL[i1 as usize] as u64 + a * SANDWICH_OBSERVE[i2 as usize] as u64);
            3
        } else {
            code -= a + a * a;
            3
        };
        let lines = enumerated_session(code, len);
        let sp = SessionSpec { lines, crash: None, compile_crash: None, collect_every_step: false, alloc_mode: alloc::PLAIN, caller_releases: index % 4 != 3, ledger: false, recycle: index % 4 == 1 };
        acc.count("enumerated_sessions", 1);
        h = explore(acc, &sp, seed, index, true, &mut rng);
        // the same session once more with a collection at every instruction boundary
        let mut sp2 = sp.clone();
        sp2.collect_every_step = true;
        acc.begin(&sp2.to_json());
        let r2 = run_session(&sp2, false);
        account(acc, &sp2, &r2);
        report(acc, &sp2, &r2, seed, index);
        if code % 97 == 5 {
            acc.sample(json!({"enumerated_session": sp.lines.iter().map(|l| l.text()).collect::<Vec<_>>()}));
        }
    } else {
        let sp = random_session(&mut rng);
        acc.count("random_sessions", 1);
        h = explore(acc, &sp, seed, index, false, &mut rng);
        acc.sample(json!({"random_session": sp.lines.iter().map(|l| format!("[{}] {}", l.label, l.text())).collect::<Vec<_>>(), "collect_every_step": sp.collect_every_step, "alloc_mode": alloc::mode_name(sp.alloc_mode)}));
    }
    acc.log(index, h);
}

// ---------------------------------------------------------------------------------------------
// replay and minimisation

pub fn replay(sp: &Value, trace: bool) -> Vec<Finding> {
    let spec = SessionSpec::from_json(sp);
    let r = run_session(&spec, trace);
    if trace {
        for l in &r.transcript {
            println!("{}", l);
        }
    }
    r.findings
}

pub fn shrink(sp: &Value, class: &str, key: &str) -> Value {
    let mut spec = SessionSpec::from_json(sp);
    let same = |s: &SessionSpec| {
        let r = run_session(s, false);
        !r.inconsistent && r.findings.iter().any(|f| f.class == class && f.key == key)
    };
    let mut tries = 0;
    // simpler modes
    if spec.alloc_mode != alloc::PLAIN {
        let mut c = spec.clone();
        c.alloc_mode = alloc::PLAIN;
        if same(&c) {
            spec = c;
        }
    }
    if spec.collect_every_step {
        let mut c = spec.clone();
        c.collect_every_step = false;
        if same(&c) {
            spec = c;
        }
    }
    // drop lines (later lines first), keeping the crash line index consistent
    let mut changed = true;
    while changed && tries < 600 {
        changed = false;
        let mut i = spec.lines.len();
        while i > 0 {
            i -= 1;
            tries += 1;
            if matches!(spec.crash, Some((l, _)) if l == i) || matches!(spec.compile_crash, Some((l, _)) if l == i) {
                continue;
            }
            let mut c = spec.clone();
            c.lines.remove(i);
            if let Some((l, k)) = c.crash {
                if l > i {
                    c.crash = Some((l - 1, k));
                }
            }
            if let Some((l, k)) = c.compile_crash {
                if l > i {
                    c.compile_crash = Some((l - 1, k));
                }
            }
            if same(&c) {
                spec = c;
                changed = true;
            }
        }
    }
    // drop statements inside lines (only from lines without failure bookkeeping)
    for li in 0..spec.lines.len() {
        let mut si = 0;
        while si < spec.lines[li].stmts.len() && tries < 1200 {
            tries += 1;
            if spec.lines[li].stmts.len() <= 1 || spec.lines[li].effect_equiv.is_some() || matches!(spec.compile_crash, Some((l, _)) if l == li) {
                break;
            }
            let mut c = spec.clone();
            c.lines[li].stmts.remove(si);
            if let Fail::Run(idx) = c.lines[li].fail.clone() {
                if si < idx {
                    c.lines[li].fail = Fail::Run(idx - 1);
                } else if si == idx {
                    si += 1;
                    continue;
                }
            }
            if same(&c) {
                spec = c;
            } else {
                si += 1;
            }
        }
    }
    // earliest injection point
    if let Some((l, k)) = spec.crash {
        for k2 in 0..k {
            tries += 1;
            if tries > 1600 {
                break;
            }
            let mut c = spec.clone();
            c.crash = Some((l, k2));
            if same(&c) {
                spec = c;
                break;
            }
        }
    }
    if let Some((l, k)) = spec.compile_crash {
        for k2 in 0..k {
            tries += 1;
            if tries > 1600 {
                break;
            }
            let mut c = spec.clone();
            c.compile_crash = Some((l, k2));
            if same(&c) {
                spec = c;
                break;
            }
        }
    }
    let mut out = spec.to_json();
    out["expect"] = sp["expect"].clone();
    out
}


// ---------------------------------------------------------------------------------------------
// C03 across retained lines: the same sessions, judged only by the heap invariants (a value reachable
// from a variable must stay allocated and unchanged also when that variable lives across lines)

pub fn scenarios_c03(tier: Tier) -> u64 {
    DIRECTED
        + match tier {
            Tier::Quick => 4_000,
            Tier::Thorough => 100_000,
        }
}

pub fn scenario_c03(acc: &mut Acc, seed: u64, index: u64, tier: Tier) {
    let mut sub = Acc::new(acc.solo);
    let mapped = if index < DIRECTED { index } else { DIRECTED + enumerated_count(tier) + (index - DIRECTED) };
    scenario(&mut sub, seed, mapped, tier);
    for (k, v) in &sub.counters {
        acc.count(&format!("session_{}", k), *v);
    }
    for (k, set) in &sub.distinct {
        for h in set {
            acc.distinct(&format!("session_{}", k), *h);
        }
    }
    for (_, h) in &sub.log_hashes {
        acc.log(index, *h);
    }
    if index % 400 == 7 {
        for smp in sub.samples.iter().take(1) {
            acc.sample(smp.clone());
        }
    }
    for mut v in sub.violations {
        let base = v.class.clone();
        if HEAP_CLASSES.contains(&base.as_str()) {
            v.property = "C03".into();
            v.index = index;
            acc.violation(v);
        }
    }
}


// ---------------------------------------------------------------------------------------------
// C04 across retained lines: the same sessions, judged by the ledger only - once the pair is dropped
// and the caller has released what it was handed nothing is left, nothing was released twice, and
// every value handed out was valid

pub const LEDGER_CLASSES: &[&str] = &["leak", "double-release", "release-unknown", "result-invalid"];

pub fn scenarios_c04(tier: Tier) -> u64 {
    DIRECTED
        + match tier {
            Tier::Quick => 3_000,
            Tier::Thorough => 80_000,
        }
}

pub fn scenario_c04(acc: &mut Acc, seed: u64, index: u64, tier: Tier) {
    let mut sub = Acc::new(acc.solo);
    // other random sessions than the ones C17 / C03 look at
    let mapped = if index < DIRECTED { index } else { DIRECTED + enumerated_count(tier) + 1_000_000 + (index - DIRECTED) };
    LEDGER_MODE.store(true, std::sync::atomic::Ordering::Relaxed);
    scenario(&mut sub, seed, mapped, tier);
    LEDGER_MODE.store(false, std::sync::atomic::Ordering::Relaxed);
    for (k, v) in &sub.counters {
        acc.count(&format!("session_{}", k), *v);
    }
    for (k, set) in &sub.distinct {
        for h in set {
            acc.distinct(&format!("session_{}", k), *h);
        }
    }
    for (_, h) in &sub.log_hashes {
        acc.log(index, *h);
    }
    for mut v in sub.violations {
        if LEDGER_CLASSES.contains(&v.class.as_str()) {
            v.property = "C04".into();
            v.index = index;
            acc.violation(v);
        }
    }
}
