//! Perturbing allocator (seam N2): wraps `System`, never replaces it.
//!
//! Modes (per thread):
//!  * PLAIN  - pass through
//!  * POISON - freed blocks are filled with 0xDE and parked (not handed back) until `flush_parked`,
//!             so a stale read returns poison deterministically and addresses are not recycled
//!  * MOVE   - additionally every `realloc` moves the block (new block, copy, poison + park the old one)
//!
//! In every mode a fresh block, and the part a block gains when it grows, is filled with a junk byte
//! that changes with every allocation of the thread: code that reads memory it never wrote (reserved
//! capacity of a string, say) then computes with a value that is a deterministic function of the
//! allocation history - different after a different history, the same when the run is replayed -
//! instead of with whatever the system allocator left there. (Not under Miri, which reports such a
//! read itself.)
//!
//! Alignment: a block is aligned exactly as its layout asks and no better - requests with an
//! alignment of 8 or less are served 8 bytes into a 16-aligned system block, so their addresses are
//! 8 modulo 16 (glibc would hand out 16-aligned blocks for them, which hides code that quietly
//! relies on low address bits being clear). Not under Miri, whose allocator is already minimal.
//!
//! Correct Rust never reads freed or unwritten memory, so no mode can change the behaviour of a tree on which the
//! properties hold. The wrapper also keeps per-thread counters of live blocks/bytes: a ledger that
//! does not depend on the interpreter's hooks at all.

use std::alloc::{GlobalAlloc, Layout, System};
use std::cell::Cell;

pub const PLAIN: u8 = 0;
pub const POISON: u8 = 1;
pub const MOVE: u8 = 2;
/// freed blocks go to a per-thread last-in-first-out cache and are handed out again to the next
/// request of the same size: addresses are recycled, by a rule that depends on the sequence of
/// requests only (not on what the system allocator happens to do)
pub const RECYCLE: u8 = 3;

/// `SCATTER0 + n` (n in 0..240): as PLAIN, but every small block the *interpreter* asks for (64 bytes
/// or less, alignment 8 or less, not requested from inside one of the simulator's hooks) is placed at
/// an address whose low eight bits are a function of (n, how many such blocks the thread has asked
/// for since the mode was set): 0, 8, 16 ... 248 modulo 256, a quarter of them exactly on a 256-byte
/// boundary. The system block behind it is 256-aligned, so the low bits do not depend on what the
/// system allocator does, and a replay repeats them. Code whose result depends on the low bits of a
/// box address (a tag or fast-path test on pointer bits, a hash of an address) then gives a different
/// result than under PLAIN, where every small block lies at 8 modulo 16.
pub const SCATTER0: u8 = 16;

pub fn is_scatter(m: u8) -> bool {
    m >= SCATTER0
}

pub fn mode_name(m: u8) -> String {
    match m {
        PLAIN => "plain".into(),
        POISON => "poison".into(),
        RECYCLE => "recycle".into(),
        MOVE => "move".into(),
        n if n >= SCATTER0 => format!("scatter{}", n - SCATTER0),
        _ => "move".into(),
    }
}

/// the name without the scatter number (for counters)
pub fn mode_class(m: u8) -> &'static str {
    match m {
        PLAIN => "plain",
        POISON => "poison",
        RECYCLE => "recycle",
        MOVE => "move",
        _ => "scatter",
    }
}

pub fn mode_from_name(s: &str) -> u8 {
    match s {
        "poison" => POISON,
        "move" => MOVE,
        "recycle" => RECYCLE,
        _ => match s.strip_prefix("scatter").and_then(|n| n.parse::<u8>().ok()) {
            Some(n) if n < 240 => SCATTER0 + n,
            _ => PLAIN,
        },
    }
}

#[derive(Clone, Copy)]
struct Parked {
    ptr: *mut u8,
    size: usize,
    align: usize,
}

thread_local! {
    static MODE: Cell<u8> = const { Cell::new(PLAIN) };
    static LIVE_BLOCKS: Cell<i64> = const { Cell::new(0) };
    static LIVE_BYTES: Cell<i64> = const { Cell::new(0) };
    static MOVES: Cell<u64> = const { Cell::new(0) };
    static POISONED: Cell<u64> = const { Cell::new(0) };
    static PARK_PTR: Cell<*mut Parked> = const { Cell::new(std::ptr::null_mut()) };
    static PARK_LEN: Cell<usize> = const { Cell::new(0) };
    static PARK_CAP: Cell<usize> = const { Cell::new(0) };
    static JUNK: Cell<u64> = const { Cell::new(0) };
    static AMBIENT: Cell<u8> = const { Cell::new(PLAIN) };
    static CACHE_PTR: Cell<*mut Parked> = const { Cell::new(std::ptr::null_mut()) };
    static CACHE_LEN: Cell<usize> = const { Cell::new(0) };
    static CACHE_CAP: Cell<usize> = const { Cell::new(0) };
    static RECYCLED: Cell<u64> = const { Cell::new(0) };
    static SCATTER_N: Cell<u64> = const { Cell::new(0) };
    static SCATTERED: Cell<u64> = const { Cell::new(0) };
    static IN_HOOK: Cell<u32> = const { Cell::new(0) };
}

/// Marks the time the thread spends inside one of the simulator's hooks: blocks requested there are
/// the harness's own and are neither scattered nor counted for the scatter sequence (how many the
/// harness needs depends on what earlier scenarios left in its tables, which a replay does not share).
pub struct HookGuard;

pub fn in_hook() -> HookGuard {
    let _ = IN_HOOK.try_with(|c| c.set(c.get() + 1));
    HookGuard
}

impl Drop for HookGuard {
    fn drop(&mut self) {
        let _ = IN_HOOK.try_with(|c| c.set(c.get().saturating_sub(1)));
    }
}

pub fn scattered() -> u64 {
    SCATTERED.with(|c| c.get())
}

/// offset (8 ..= 256, a multiple of 8) of the next scattered block of this thread, if the request qualifies
#[inline]
fn scatter_offset(layout: Layout) -> Option<usize> {
    let m = mode();
    if cfg!(miri) || m < SCATTER0 || layout.size() > 64 || layout.align() > 8 {
        return None;
    }
    if IN_HOOK.try_with(|c| c.get()).unwrap_or(1) != 0 {
        return None;
    }
    let n = SCATTER_N.try_with(|c| {
        let n = c.get();
        c.set(n + 1);
        n
    })
    .ok()?;
    let mut h = (n.wrapping_add(1)).wrapping_mul(0x9E37_79B9_7F4A_7C15) ^ ((m as u64) << 32 | m as u64).wrapping_mul(0xD6E8_FEB8_6659_FD93);
    h ^= h >> 29;
    h = h.wrapping_mul(0xBF58_476D_1CE4_E5B9);
    h ^= h >> 32;
    let _ = SCATTERED.try_with(|c| c.set(c.get() + 1));
    Some(match h & 3 {
        0 => 256,
        1 => 8,
        _ => 8 * (1 + ((h >> 8) % 32) as usize),
    })
}

/// the mode `reset_mode` goes back to (a session in recycle mode keeps it between its lines)
pub fn set_ambient(m: u8) {
    AMBIENT.with(|c| c.set(m));
    set_mode(m);
}

pub fn reset_mode() {
    let m = AMBIENT.try_with(|c| c.get()).unwrap_or(PLAIN);
    set_mode(m);
}

pub fn recycled() -> u64 {
    RECYCLED.with(|c| c.get())
}

/// Puts a freed system block into the recycle cache; false if the cache cannot take it.
unsafe fn cache_put(base: *mut u8, sl: Layout) -> bool {
    CACHE_PTR
        .try_with(|pp| {
            let len = CACHE_LEN.with(|c| c.get());
            let cap = CACHE_CAP.with(|c| c.get());
            let mut b = pp.get();
            if len == cap {
                let new_cap = if cap == 0 { 1024 } else { cap * 2 };
                let new_layout = Layout::array::<Parked>(new_cap).unwrap();
                let nb = if b.is_null() { System.alloc(new_layout) } else { System.realloc(b as *mut u8, Layout::array::<Parked>(cap).unwrap(), new_layout.size()) } as *mut Parked;
                if nb.is_null() {
                    return false;
                }
                b = nb;
                pp.set(b);
                CACHE_CAP.with(|c| c.set(new_cap));
            }
            b.add(len).write(Parked { ptr: base, size: sl.size(), align: sl.align() });
            CACHE_LEN.with(|c| c.set(len + 1));
            true
        })
        .unwrap_or(false)
}

/// Takes the most recently freed cached block of exactly this layout, if any.
unsafe fn cache_take(sl: Layout) -> *mut u8 {
    CACHE_PTR
        .try_with(|pp| {
            let b = pp.get();
            let len = CACHE_LEN.with(|c| c.get());
            let mut i = len;
            // (only the newest 64 entries are searched: bounded cost, still deterministic)
            while i > 0 && len - i < 64 {
                i -= 1;
                let p = *b.add(i);
                if p.size == sl.size() && p.align == sl.align() {
                    // remove entry i, keeping the order of the rest
                    std::ptr::copy(b.add(i + 1), b.add(i), len - i - 1);
                    CACHE_LEN.with(|c| c.set(len - 1));
                    let _ = RECYCLED.try_with(|c| c.set(c.get() + 1));
                    return p.ptr;
                }
            }
            std::ptr::null_mut()
        })
        .unwrap_or(std::ptr::null_mut())
}

/// Hands every cached block of this thread back to the system allocator.
pub fn flush_cache() {
    let base = CACHE_PTR.with(|c| c.get());
    let len = CACHE_LEN.with(|c| c.get());
    for i in 0..len {
        unsafe {
            let p = *base.add(i);
            System.dealloc(p.ptr, Layout::from_size_align_unchecked(p.size, p.align));
        }
    }
    CACHE_LEN.with(|c| c.set(0));
}

/// the junk byte for the next fresh block of this thread
#[inline]
fn junk() -> u8 {
    JUNK.try_with(|c| {
        let n = c.get().wrapping_add(1);
        c.set(n);
        (n.wrapping_mul(0x9E37_79B9_7F4A_7C15) >> 56) as u8
    })
    .unwrap_or(0xA5)
}

#[inline]
unsafe fn fill(ptr: *mut u8, len: usize) {
    if !cfg!(miri) && len > 0 {
        std::ptr::write_bytes(ptr, junk(), len);
    }
}

pub struct SimAlloc;

#[inline]
fn mode() -> u8 {
    MODE.try_with(|m| m.get()).unwrap_or(PLAIN)
}

pub fn set_mode(m: u8) {
    MODE.with(|c| c.set(m));
    if m >= SCATTER0 {
        SCATTER_N.with(|c| c.set(0));
    }
}

pub fn live_blocks() -> i64 {
    LIVE_BLOCKS.with(|c| c.get())
}

pub fn live_bytes() -> i64 {
    LIVE_BYTES.with(|c| c.get())
}

pub fn moves() -> u64 {
    MOVES.with(|c| c.get())
}

pub fn poisoned() -> u64 {
    POISONED.with(|c| c.get())
}

#[inline]
fn count(blocks: i64, bytes: i64) {
    let _ = LIVE_BLOCKS.try_with(|c| c.set(c.get() + blocks));
    let _ = LIVE_BYTES.try_with(|c| c.set(c.get() + bytes));
}

/// Whether blocks of this layout carry a header word in the 8 bytes in front of them (it records the
/// offset of the block inside its system block, so that `dealloc` and `realloc` find the system block
/// whatever the mode was when the block was made).
#[inline]
fn has_header(layout: Layout) -> bool {
    !cfg!(miri) && layout.align() <= 8
}

const SCATTER_BIT: u64 = 1 << 32;

/// The system block behind a user block, from its header word.
#[inline]
fn sys_layout_of(layout: Layout, header: u64) -> (Layout, usize) {
    let off = (header & 0xFFFF) as usize;
    unsafe {
        if header & SCATTER_BIT != 0 {
            (Layout::from_size_align_unchecked(layout.size() + 264, 256), off)
        } else {
            // 8 bytes into a 16-aligned block
            (Layout::from_size_align_unchecked(layout.size() + 8, 16), 8)
        }
    }
}

/// (system layout, offset, header word) for a new block of this layout
#[inline]
fn place(layout: Layout) -> (Layout, usize, u64) {
    if !has_header(layout) {
        return (layout, 0, 0);
    }
    let header = match scatter_offset(layout) {
        Some(off) => SCATTER_BIT | off as u64,
        None => 8,
    };
    let (sl, off) = sys_layout_of(layout, header);
    (sl, off, header)
}

/// (system layout, offset) of an existing block
#[inline]
unsafe fn locate(ptr: *mut u8, layout: Layout) -> (Layout, usize) {
    if !has_header(layout) {
        return (layout, 0);
    }
    let header = (ptr.sub(8) as *const u64).read();
    sys_layout_of(layout, header)
}

unsafe fn park(ptr: *mut u8, layout: Layout) {
    std::ptr::write_bytes(ptr, 0xDE, layout.size());
    let _ = POISONED.try_with(|c| c.set(c.get() + 1));
    let ok = PARK_PTR
        .try_with(|pp| {
            let len = PARK_LEN.with(|c| c.get());
            let cap = PARK_CAP.with(|c| c.get());
            let mut base = pp.get();
            if len == cap {
                let new_cap = if cap == 0 { 1024 } else { cap * 2 };
                let new_layout = Layout::array::<Parked>(new_cap).unwrap();
                let new_base = if base.is_null() {
                    System.alloc(new_layout)
                } else {
                    System.realloc(
                        base as *mut u8,
                        Layout::array::<Parked>(cap).unwrap(),
                        new_layout.size(),
                    )
                } as *mut Parked;
                if new_base.is_null() {
                    return false;
                }
                base = new_base;
                pp.set(base);
                PARK_CAP.with(|c| c.set(new_cap));
            }
            base.add(len).write(Parked {
                ptr,
                size: layout.size(),
                align: layout.align(),
            });
            PARK_LEN.with(|c| c.set(len + 1));
            true
        })
        .unwrap_or(false);
    if !ok {
        System.dealloc(ptr, layout);
    }
}

/// Hands every parked block of this thread back to the system allocator.
pub fn flush_parked() {
    let base = PARK_PTR.with(|c| c.get());
    let len = PARK_LEN.with(|c| c.get());
    for i in 0..len {
        unsafe {
            let p = *base.add(i);
            System.dealloc(p.ptr, Layout::from_size_align_unchecked(p.size, p.align));
        }
    }
    PARK_LEN.with(|c| c.set(0));
}

unsafe impl GlobalAlloc for SimAlloc {
    unsafe fn alloc(&self, layout: Layout) -> *mut u8 {
        let (sl, off, header) = place(layout);
        let mut base = if mode() == RECYCLE { cache_take(sl) } else { std::ptr::null_mut() };
        if base.is_null() {
            base = System.alloc(sl);
        }
        if base.is_null() {
            return base;
        }
        let p = base.add(off);
        if off != 0 {
            (p.sub(8) as *mut u64).write(header);
        }
        count(1, layout.size() as i64);
        fill(p, layout.size());
        p
    }

    unsafe fn dealloc(&self, ptr: *mut u8, layout: Layout) {
        count(-1, -(layout.size() as i64));
        let (sl, off) = locate(ptr, layout);
        let base = ptr.sub(off);
        match mode() {
            RECYCLE => {
                if !cache_put(base, sl) {
                    System.dealloc(base, sl)
                }
            }
            POISON | MOVE => park(base, sl),
            _ => System.dealloc(base, sl),
        }
    }

    unsafe fn realloc(&self, ptr: *mut u8, layout: Layout, new_size: usize) -> *mut u8 {
        let (sl, off) = locate(ptr, layout);
        let base = ptr.sub(off);
        let new_layout = Layout::from_size_align_unchecked(new_size, layout.align());
        if mode() == MOVE || sl.align() > 16 || (is_scatter(mode()) && has_header(layout)) {
            // a new block (placed by the rules of the current mode), copy, give up the old one
            let moving = mode() == MOVE;
            let (nsl, noff, header) = place(new_layout);
            let new_base = System.alloc(nsl);
            if new_base.is_null() {
                return new_base;
            }
            let new_ptr = new_base.add(noff);
            if noff != 0 {
                (new_ptr.sub(8) as *mut u64).write(header);
            }
            std::ptr::copy_nonoverlapping(ptr, new_ptr, layout.size().min(new_size));
            if new_size > layout.size() {
                fill(new_ptr.add(layout.size()), new_size - layout.size());
            }
            if moving || mode() == POISON {
                park(base, sl);
            } else {
                System.dealloc(base, sl);
            }
            if moving {
                let _ = MOVES.try_with(|c| c.set(c.get() + 1));
            }
            count(0, new_size as i64 - layout.size() as i64);
            new_ptr
        } else {
            let new_base = System.realloc(base, sl, new_size + off);
            if new_base.is_null() {
                return new_base;
            }
            let p = new_base.add(off);
            count(0, new_size as i64 - layout.size() as i64);
            if new_size > layout.size() {
                fill(p.add(layout.size()), new_size - layout.size());
            }
            p
        }
    }
}
