//! Perturbing allocator (seam N2): wraps `System`, never replaces it.
//!
//! Modes (per thread):
//!  * PLAIN  - pass through
//!  * POISON - freed blocks are filled with 0xDE and parked (not handed back) until `flush_parked`,
//!             so a stale read returns poison deterministically and addresses are not recycled
//!  * MOVE   - additionally every `realloc` moves the block (new block, copy, poison + park the old one)
//!
//! In every mode a fresh block, and the part a block gains when it grows, is filled with a junk byte
//! that changes with every allocation of the thread: code that reads memory it never wrote (reserved
//! capacity of a string, say) then computes with a value that is a deterministic function of the
//! allocation history - different after a different history, the same when the run is replayed -
//! instead of with whatever the system allocator left there. (Not under Miri, which reports such a
//! read itself.)
//!
//! Alignment: a block is aligned exactly as its layout asks and no better - requests with an
//! alignment of 8 or less are served 8 bytes into a 16-aligned system block, so their addresses are
//! 8 modulo 16 (glibc would hand out 16-aligned blocks for them, which hides code that quietly
//! relies on low address bits being clear). Not under Miri, whose allocator is already minimal.
//!
//! Correct Rust never reads freed or unwritten memory, so no mode can change the behaviour of a tree on which the
//! properties hold. The wrapper also keeps per-thread counters of live blocks/bytes: a ledger that
//! does not depend on the interpreter's hooks at all.

use std::alloc::{GlobalAlloc, Layout, System};
use std::cell::Cell;

pub const PLAIN: u8 = 0;
pub const POISON: u8 = 1;
pub const MOVE: u8 = 2;
/// freed blocks go to a per-thread last-in-first-out cache and are handed out again to the next
/// request of the same size: addresses are recycled, by a rule that depends on the sequence of
/// requests only (not on what the system allocator happens to do)
pub const RECYCLE: u8 = 3;

pub fn mode_name(m: u8) -> &'static str {
    match m {
        PLAIN => "plain",
        POISON => "poison",
        RECYCLE => "recycle",
        _ => "move",
    }
}

pub fn mode_from_name(s: &str) -> u8 {
    match s {
        "poison" => POISON,
        "move" => MOVE,
        "recycle" => RECYCLE,
        _ => PLAIN,
    }
}

#[derive(Clone, Copy)]
struct Parked {
    ptr: *mut u8,
    size: usize,
    align: usize,
}

thread_local! {
    static MODE: Cell<u8> = const { Cell::new(PLAIN) };
    static LIVE_BLOCKS: Cell<i64> = const { Cell::new(0) };
    static LIVE_BYTES: Cell<i64> = const { Cell::new(0) };
    static MOVES: Cell<u64> = const { Cell::new(0) };
    static POISONED: Cell<u64> = const { Cell::new(0) };
    static PARK_PTR: Cell<*mut Parked> = const { Cell::new(std::ptr::null_mut()) };
    static PARK_LEN: Cell<usize> = const { Cell::new(0) };
    static PARK_CAP: Cell<usize> = const { Cell::new(0) };
    static JUNK: Cell<u64> = const { Cell::new(0) };
    static AMBIENT: Cell<u8> = const { Cell::new(PLAIN) };
    static CACHE_PTR: Cell<*mut Parked> = const { Cell::new(std::ptr::null_mut()) };
    static CACHE_LEN: Cell<usize> = const { Cell::new(0) };
    static CACHE_CAP: Cell<usize> = const { Cell::new(0) };
    static RECYCLED: Cell<u64> = const { Cell::new(0) };
}

/// the mode `reset_mode` goes back to (a session in recycle mode keeps it between its lines)
pub fn set_ambient(m: u8) {
    AMBIENT.with(|c| c.set(m));
    set_mode(m);
}

pub fn reset_mode() {
    let m = AMBIENT.try_with(|c| c.get()).unwrap_or(PLAIN);
    set_mode(m);
}

pub fn recycled() -> u64 {
    RECYCLED.with(|c| c.get())
}

/// Puts a freed system block into the recycle cache; false if the cache cannot take it.
unsafe fn cache_put(base: *mut u8, sl: Layout) -> bool {
    CACHE_PTR
        .try_with(|pp| {
            let len = CACHE_LEN.with(|c| c.get());
            let cap = CACHE_CAP.with(|c| c.get());
            let mut b = pp.get();
            if len == cap {
                let new_cap = if cap == 0 { 1024 } else { cap * 2 };
                let new_layout = Layout::array::<Parked>(new_cap).unwrap();
                let nb = if b.is_null() { System.alloc(new_layout) } else { System.realloc(b as *mut u8, Layout::array::<Parked>(cap).unwrap(), new_layout.size()) } as *mut Parked;
                if nb.is_null() {
                    return false;
                }
                b = nb;
                pp.set(b);
                CACHE_CAP.with(|c| c.set(new_cap));
            }
            b.add(len).write(Parked { ptr: base, size: sl.size(), align: sl.align() });
            CACHE_LEN.with(|c| c.set(len + 1));
            true
        })
        .unwrap_or(false)
}

/// Takes the most recently freed cached block of exactly this layout, if any.
unsafe fn cache_take(sl: Layout) -> *mut u8 {
    CACHE_PTR
        .try_with(|pp| {
            let b = pp.get();
            let len = CACHE_LEN.with(|c| c.get());
            let mut i = len;
            // (only the newest 64 entries are searched: bounded cost, still deterministic)
            while i > 0 && len - i < 64 {
                i -= 1;
                let p = *b.add(i);
                if p.size == sl.size() && p.align == sl.align() {
                    // remove entry i, keeping the order of the rest
                    std::ptr::copy(b.add(i + 1), b.add(i), len - i - 1);
                    CACHE_LEN.with(|c| c.set(len - 1));
                    let _ = RECYCLED.try_with(|c| c.set(c.get() + 1));
                    return p.ptr;
                }
            }
            std::ptr::null_mut()
        })
        .unwrap_or(std::ptr::null_mut())
}

/// Hands every cached block of this thread back to the system allocator.
pub fn flush_cache() {
    let base = CACHE_PTR.with(|c| c.get());
    let len = CACHE_LEN.with(|c| c.get());
    for i in 0..len {
        unsafe {
            let p = *base.add(i);
            System.dealloc(p.ptr, Layout::from_size_align_unchecked(p.size, p.align));
        }
    }
    CACHE_LEN.with(|c| c.set(0));
}

/// the junk byte for the next fresh block of this thread
#[inline]
fn junk() -> u8 {
    JUNK.try_with(|c| {
        let n = c.get().wrapping_add(1);
        c.set(n);
        (n.wrapping_mul(0x9E37_79B9_7F4A_7C15) >> 56) as u8
    })
    .unwrap_or(0xA5)
}

#[inline]
unsafe fn fill(ptr: *mut u8, len: usize) {
    if !cfg!(miri) && len > 0 {
        std::ptr::write_bytes(ptr, junk(), len);
    }
}

pub struct SimAlloc;

#[inline]
fn mode() -> u8 {
    MODE.try_with(|m| m.get()).unwrap_or(PLAIN)
}

pub fn set_mode(m: u8) {
    MODE.with(|c| c.set(m));
}

pub fn live_blocks() -> i64 {
    LIVE_BLOCKS.with(|c| c.get())
}

pub fn live_bytes() -> i64 {
    LIVE_BYTES.with(|c| c.get())
}

pub fn moves() -> u64 {
    MOVES.with(|c| c.get())
}

pub fn poisoned() -> u64 {
    POISONED.with(|c| c.get())
}

#[inline]
fn count(blocks: i64, bytes: i64) {
    let _ = LIVE_BLOCKS.try_with(|c| c.set(c.get() + blocks));
    let _ = LIVE_BYTES.try_with(|c| c.set(c.get() + bytes));
}

/// The system block behind a user block: (layout to ask the system allocator for, offset of the user
/// block inside it). Depends on the layout only, so `dealloc` and `realloc` can recompute it.
#[inline]
fn sys_layout(layout: Layout) -> (Layout, usize) {
    if !cfg!(miri) && layout.align() <= 8 {
        // 8 bytes into a 16-aligned block
        (unsafe { Layout::from_size_align_unchecked(layout.size() + 8, 16) }, 8)
    } else {
        (layout, 0)
    }
}

unsafe fn park(ptr: *mut u8, layout: Layout) {
    std::ptr::write_bytes(ptr, 0xDE, layout.size());
    let _ = POISONED.try_with(|c| c.set(c.get() + 1));
    let ok = PARK_PTR
        .try_with(|pp| {
            let len = PARK_LEN.with(|c| c.get());
            let cap = PARK_CAP.with(|c| c.get());
            let mut base = pp.get();
            if len == cap {
                let new_cap = if cap == 0 { 1024 } else { cap * 2 };
                let new_layout = Layout::array::<Parked>(new_cap).unwrap();
                let new_base = if base.is_null() {
                    System.alloc(new_layout)
                } else {
                    System.realloc(
                        base as *mut u8,
                        Layout::array::<Parked>(cap).unwrap(),
                        new_layout.size(),
                    )
                } as *mut Parked;
                if new_base.is_null() {
                    return false;
                }
                base = new_base;
                pp.set(base);
                PARK_CAP.with(|c| c.set(new_cap));
            }
            base.add(len).write(Parked {
                ptr,
                size: layout.size(),
                align: layout.align(),
            });
            PARK_LEN.with(|c| c.set(len + 1));
            true
        })
        .unwrap_or(false);
    if !ok {
        System.dealloc(ptr, layout);
    }
}

/// Hands every parked block of this thread back to the system allocator.
pub fn flush_parked() {
    let base = PARK_PTR.with(|c| c.get());
    let len = PARK_LEN.with(|c| c.get());
    for i in 0..len {
        unsafe {
            let p = *base.add(i);
            System.dealloc(p.ptr, Layout::from_size_align_unchecked(p.size, p.align));
        }
    }
    PARK_LEN.with(|c| c.set(0));
}

unsafe impl GlobalAlloc for SimAlloc {
    unsafe fn alloc(&self, layout: Layout) -> *mut u8 {
        let (sl, off) = sys_layout(layout);
        let mut base = if mode() == RECYCLE { cache_take(sl) } else { std::ptr::null_mut() };
        if base.is_null() {
            base = System.alloc(sl);
        }
        if base.is_null() {
            return base;
        }
        let p = base.add(off);
        count(1, layout.size() as i64);
        fill(p, layout.size());
        p
    }

    unsafe fn dealloc(&self, ptr: *mut u8, layout: Layout) {
        count(-1, -(layout.size() as i64));
        let (sl, off) = sys_layout(layout);
        let base = ptr.sub(off);
        match mode() {
            PLAIN => System.dealloc(base, sl),
            RECYCLE => {
                if !cache_put(base, sl) {
                    System.dealloc(base, sl)
                }
            }
            _ => park(base, sl),
        }
    }

    unsafe fn realloc(&self, ptr: *mut u8, layout: Layout, new_size: usize) -> *mut u8 {
        let (sl, off) = sys_layout(layout);
        let base = ptr.sub(off);
        if mode() == MOVE {
            let new_layout = Layout::from_size_align_unchecked(new_size, layout.align());
            let (nsl, noff) = sys_layout(new_layout);
            let new_base = System.alloc(nsl);
            if new_base.is_null() {
                return new_base;
            }
            let new_ptr = new_base.add(noff);
            std::ptr::copy_nonoverlapping(ptr, new_ptr, layout.size().min(new_size));
            if new_size > layout.size() {
                fill(new_ptr.add(layout.size()), new_size - layout.size());
            }
            park(base, sl);
            let _ = MOVES.try_with(|c| c.set(c.get() + 1));
            count(0, new_size as i64 - layout.size() as i64);
            new_ptr
        } else {
            let new_base = System.realloc(base, sl, new_size + off);
            if new_base.is_null() {
                return new_base;
            }
            let p = new_base.add(off);
            count(0, new_size as i64 - layout.size() as i64);
            if new_size > layout.size() {
                fill(p.add(layout.size()), new_size - layout.size());
            }
            p
        }
    }
}
