//! Re-execution of explicit scenario descriptions (replay files) and their minimisation.

use crate::alloc;
use crate::runner::{self, Outcome, RunResult};
use crate::sim::{CollectPlan, Finding, Injected};
use crate::spec;
use serde_json::{json, Value};
use std::time::{Duration, Instant};

/// Runs an "eval" scenario and returns every finding, including the ones the engines synthesise
/// from the run's outcome.
pub fn eval_findings(sp: &Value, trace: bool) -> (Vec<Finding>, Option<RunResult>) {
    let src = sp["program"].as_str().unwrap_or("");
    let mut plan = spec::plan_from_json(&sp["plan"]);
    plan.trace = trace;
    let want = sp["expect"]["class"].as_str().unwrap_or("");
    let mut out = Vec::new();
    if want == "allocator-ledger-growth" {
        let _ = runner::run_eval(src, &plan, 1, true);
        let _ = runner::run_eval(src, &plan, 1, true);
        let b2 = alloc::live_blocks();
        let _ = runner::run_eval(src, &plan, 1, true);
        let b3 = alloc::live_blocks();
        if b3 > b2 {
            out.push(Finding {
                class: "allocator-ledger-growth".into(),
                key: "blocks".into(),
                detail: format!("live allocator blocks grow by {} per evaluation", b3 - b2),
            });
        }
        return (out, None);
    }
    let r = runner::run_eval(src, &plan, 1, true);
    out.extend(r.findings.iter().cloned());
    if r.injected == Injected::Budget && plan.budget < 200_000 {
        out.push(Finding {
            class: "progress".into(),
            key: "budget".into(),
            detail: format!("run did not finish within {} steps", plan.budget),
        });
    }
    if r.injected == Injected::Crash {
        let ok = matches!(&r.outcome, Outcome::Err(k, m) if k == "TypeError" && m == nederlang::verif::INJECTED_FAILURE);
        if !ok {
            out.push(Finding {
                class: "crash-path-differs".into(),
                key: r.outcome.kind(),
                detail: format!("run cut short did not end with the injected error but with: {}", r.outcome.render()),
            });
        }
    }
    // relational expectation: outcome must equal the outcome under the shipped schedule / plain allocator
    if want == "unstable-outcome" {
        // not a pure function of (text, plan): look for any two differing outcomes in repeated runs
        let mut base = plan.clone();
        base.collect = CollectPlan::Shipped;
        base.alloc_mode = alloc::PLAIN;
        base.trace = false;
        let r0 = runner::run_eval(src, &base, 1, true);
        for _ in 0..20 {
            let rr = runner::run_eval(src, &plan, 1, true);
            if rr.digest() != r0.digest() && rr.injected == Injected::None {
                out.push(Finding {
                    class: want.to_string(),
                    key: variance_key(&r0, &rr),
                    detail: format!("shipped/plain: {} ; same program again: {}", r0.digest(), rr.digest()),
                });
                break;
            }
        }
    }
    if want == "schedule-variance" || want == "allocator-variance" {
        let mut base = plan.clone();
        base.collect = CollectPlan::Shipped;
        base.alloc_mode = alloc::PLAIN;
        base.trace = false;
        let r0 = runner::run_eval(src, &base, 1, true);
        if r0.digest() != r.digest() && r.injected == Injected::None && r0.injected == Injected::None {
            out.push(Finding {
                class: want.to_string(),
                key: variance_key(&r0, &r),
                detail: format!("shipped/plain: {} ; {}/{}: {}", r0.digest(), plan.collect.name(), alloc::mode_name(plan.alloc_mode), r.digest()),
            });
        }
    }
    (out, Some(r))
}

pub fn variance_key(a: &RunResult, b: &RunResult) -> String {
    format!("{}->{}", a.outcome.kind(), b.outcome.kind())
}

pub fn spec_findings(sp: &Value, trace: bool) -> Vec<Finding> {
    match sp["kind"].as_str() {
        Some("eval") => eval_findings(sp, trace).0,
        Some("gc-ops") => crate::engine_gc::replay(sp, trace),
        Some("session") => crate::engine_session::replay(sp, trace),
        Some("purity") => crate::engine_purity::replay(sp, trace),
        Some("miri") => {
            let (_, _, v) = crate::checks::miri_adjunct("", sp["seed"].as_u64().unwrap_or(0), sp["part"].as_str().unwrap_or("gc"), sp["n"].as_u64().unwrap_or(4));
            v.map(|v| vec![Finding { class: v.class, key: v.key, detail: v.detail }]).unwrap_or_default()
        }
        _ => Vec::new(),
    }
}

pub fn reproduces(sp: &Value, class: &str, key: &str) -> Option<Finding> {
    spec_findings(sp, false)
        .into_iter()
        .find(|f| f.class == class && f.key == key)
}

/// `nlsim replay <file>`: exit 1 and a VIOLATION line if the violation in the file reproduces.
pub fn replay_main(path: &str, verbose: bool) -> i32 {
    let text = match std::fs::read_to_string(path) {
        Ok(t) => t,
        Err(e) => {
            eprintln!("cannot read {}: {}", path, e);
            return 2;
        }
    };
    let j: Value = match serde_json::from_str(&text) {
        Ok(j) => j,
        Err(e) => {
            eprintln!("cannot parse {}: {}", path, e);
            return 2;
        }
    };
    let class = j["class"].as_str().unwrap_or("").to_string();
    let key = j["key"].as_str().unwrap_or("").to_string();
    let property = j["property"].as_str().unwrap_or("").to_string();
    if class == "crash" {
        // the scenario kills the process: run it in a child and look at how it ends
        let outs = crate::orch::run_children(
            vec![("inner".into(), vec!["replay-inner".into(), path.to_string()])],
            1,
            Duration::from_secs(if key.starts_with("hang") { 60 } else { 600 }),
        );
        let mut o = &outs[0];
        let mut died = !o.status_ok;
        // a death caused by memory corruption may depend on the address space layout: try again
        let mut more = Vec::new();
        for _ in 0..3 {
            if died {
                break;
            }
            more = crate::orch::run_children(
                vec![("inner".into(), vec!["replay-inner".into(), path.to_string()])],
                1,
                Duration::from_secs(if key.starts_with("hang") { 60 } else { 600 }),
            );
            died = !more[0].status_ok;
        }
        if died && !more.is_empty() {
            o = &more[0];
        }
        println!("{}", json!({"type": "replay", "reproduced": died, "class": class, "key": key, "status": o.status_text}));
        if died {
            println!("VIOLATION property={} replay={}", property, path);
            return 1;
        }
        return 0;
    }
    let fs = spec_findings(&j["spec"], verbose);
    if verbose {
        for f in &fs {
            println!("finding {} [{}] {}", f.class, f.key, f.detail);
        }
    }
    match fs.iter().find(|f| f.class == class && f.key == key) {
        Some(f) => {
            println!("{}", json!({"type": "replay", "reproduced": true, "class": class, "key": key, "detail": f.detail}));
            println!("VIOLATION property={} replay={}", property, path);
            1
        }
        None => {
            println!("{}", json!({"type": "replay", "reproduced": false, "class": class, "key": key}));
            0
        }
    }
}

/// Child of a "crash" replay: just run the scenario.
pub fn replay_inner(path: &str) -> i32 {
    crate::sim::TRACE_MARKERS.store(true, std::sync::atomic::Ordering::Relaxed);
    let text = std::fs::read_to_string(path).unwrap_or_default();
    let j: Value = serde_json::from_str(&text).unwrap_or(Value::Null);
    let _ = spec_findings(&j["spec"], false);
    0
}

// ---------------------------------------------------------------------------------------------
// minimisation

struct Budget {
    started: Instant,
    tries: usize,
}

impl Budget {
    fn ok(&mut self) -> bool {
        self.tries += 1;
        self.tries < 4000 && self.started.elapsed() < Duration::from_secs(90)
    }
}

fn idents_declared(text: &str) -> Vec<String> {
    let mut names = Vec::new();
    let toks: Vec<&str> = text
        .split(|c: char| !(c.is_alphanumeric() || c == '_'))
        .filter(|t| !t.is_empty())
        .collect();
    for w in toks.windows(2) {
        if w[0] == "stel" || w[0] == "functie" {
            names.push(w[1].to_string());
        }
    }
    names
}

/// Rebuilds the epilogue (`[v0, v1, ...];` on the last line) so that it only names what is still declared.
fn fix_epilogue(lines: &[String]) -> Vec<String> {
    let mut v = lines.to_vec();
    if let Some(last) = v.last() {
        let t = last.trim();
        if t.starts_with('[') && t.ends_with("];") && !t.contains('"') && !t.contains('(') {
            let body: String = v[..v.len() - 1].join("\n");
            let declared = idents_declared(&body);
            let names: Vec<String> = t[1..t.len() - 2]
                .split(',')
                .map(|s| s.trim().to_string())
                .filter(|s| !s.is_empty() && declared.contains(s))
                .collect();
            let n = v.len();
            v[n - 1] = format!("[{}];", names.join(", "));
        }
    }
    v
}

fn with_program(sp: &Value, lines: &[String]) -> Value {
    let mut s = sp.clone();
    s["program"] = json!(lines.join("\n") + "\n");
    s
}

/// Finds a crash point reproducing the violation for a changed program (smallest first).
fn has_crash(sp: &Value) -> bool {
    !sp["plan"]["crash_at"].is_null() || !sp["plan"]["compile_crash_at"].is_null()
}

fn refit_crash(sp: &Value, class: &str, key: &str, b: &mut Budget) -> Option<Value> {
    if !sp["plan"]["compile_crash_at"].is_null() {
        let mut free = sp.clone();
        free["plan"]["compile_crash_at"] = Value::Null;
        free["expect"] = json!({});
        let n = match eval_findings(&free, false).1 {
            Some(r) => r.compile_steps,
            None => return None,
        };
        for k in 0..n.min(3000) {
            if !b.ok() {
                return None;
            }
            let mut c = sp.clone();
            c["plan"]["compile_crash_at"] = json!(k);
            if reproduces(&c, class, key).is_some() {
                return Some(c);
            }
        }
        return None;
    }
    if sp["plan"]["crash_at"].is_null() {
        return if b.ok() && reproduces(sp, class, key).is_some() { Some(sp.clone()) } else { None };
    }
    // length of the fault-free run
    let mut free = sp.clone();
    free["plan"]["crash_at"] = Value::Null;
    free["expect"] = json!({});
    let n = match eval_findings(&free, false).1 {
        Some(r) => r.steps,
        None => return None,
    };
    for k in 0..n.min(3000) {
        if !b.ok() {
            return None;
        }
        let mut c = sp.clone();
        c["plan"]["crash_at"] = json!(k);
        if reproduces(&c, class, key).is_some() {
            return Some(c);
        }
    }
    None
}

pub fn shrink_eval(sp: &Value, class: &str, key: &str) -> Value {
    let mut b = Budget { started: Instant::now(), tries: 0 };
    let mut cur = sp.clone();
    // simpler allocator mode, fewer injected collections
    if cur["plan"]["alloc_mode"] != "plain" {
        let mut c = cur.clone();
        c["plan"]["alloc_mode"] = json!("plain");
        if b.ok() && reproduces(&c, class, key).is_some() {
            cur = c;
        }
    }
    if cur["plan"]["collect"] != "shipped" {
        let mut c = cur.clone();
        c["plan"]["collect"] = json!("shipped");
        if b.ok() && reproduces(&c, class, key).is_some() {
            cur = c;
        } else if cur["plan"]["collect"] == "every-step" {
            // find a single injected collection point that suffices
            let mut free = cur.clone();
            free["expect"] = json!({});
            if let Some(r) = eval_findings(&free, false).1 {
                for k in 0..r.steps.min(400) {
                    if !b.ok() {
                        break;
                    }
                    let mut c = cur.clone();
                    c["plan"]["collect"] = json!({"extra_points": [k]});
                    if reproduces(&c, class, key).is_some() {
                        cur = c;
                        break;
                    }
                }
            }
        }
    }
    // drop program lines (delta debugging over top-level statements)
    let mut lines: Vec<String> = cur["program"]
        .as_str()
        .unwrap_or("")
        .lines()
        .map(|s| s.to_string())
        .collect();
    let mut chunk = (lines.len() / 2).max(1);
    loop {
        let mut i = 0;
        let mut removed_any = false;
        while i < lines.len() {
            if !b.ok() {
                break;
            }
            let end = (i + chunk).min(lines.len());
            let mut cand: Vec<String> = Vec::new();
            cand.extend_from_slice(&lines[..i]);
            cand.extend_from_slice(&lines[end..]);
            let cand = fix_epilogue(&cand);
            let csp = with_program(&cur, &cand);
            let hit = if !has_crash(&cur) && !has_points(&cur) {
                if reproduces(&csp, class, key).is_some() { Some(csp) } else { None }
            } else if has_points(&cur) && !has_crash(&cur) {
                refit_points(&csp, class, key, &mut b)
            } else {
                refit_crash(&csp, class, key, &mut b)
            };
            match hit {
                Some(h) => {
                    cur = h;
                    lines = cand;
                    removed_any = true;
                }
                None => i = end,
            }
        }
        if chunk == 1 && !removed_any {
            break;
        }
        if !removed_any || chunk > 1 {
            chunk = (chunk / 2).max(1);
        }
        if !b.ok() {
            break;
        }
    }
    // then statements inside blocks (never the last statement of a block: it is the block's value)
    let mut guard = 0;
    loop {
        guard += 1;
        if guard > 200 || !b.ok() {
            break;
        }
        let text = cur["program"].as_str().unwrap_or("").to_string();
        let spans = inner_statement_spans(&text);
        let mut removed = false;
        for (st, en) in spans {
            if !b.ok() {
                break;
            }
            let mut cand = String::new();
            cand.push_str(&text[..st]);
            cand.push_str(&text[en..]);
            let cand_lines: Vec<String> = cand.lines().map(|s| s.to_string()).collect();
            let cand_lines = fix_epilogue(&cand_lines);
            let csp = with_program(&cur, &cand_lines);
            let hit = if !has_crash(&cur) && !has_points(&cur) {
                if reproduces(&csp, class, key).is_some() { Some(csp) } else { None }
            } else if has_points(&cur) && !has_crash(&cur) {
                refit_points(&csp, class, key, &mut b)
            } else {
                refit_crash(&csp, class, key, &mut b)
            };
            if let Some(h) = hit {
                cur = h;
                removed = true;
                break;
            }
        }
        if !removed {
            break;
        }
    }
    // earliest crash point
    if let Some(k) = cur["plan"]["crash_at"].as_u64() {
        for k2 in 0..k {
            if !b.ok() {
                break;
            }
            let mut c = cur.clone();
            c["plan"]["crash_at"] = json!(k2);
            if reproduces(&c, class, key).is_some() {
                cur = c;
                break;
            }
        }
    }
    cur
}

/// Byte spans of statements that sit inside braces and are not the last statement of their block.
fn inner_statement_spans(text: &str) -> Vec<(usize, usize)> {
    let bytes = text.as_bytes();
    let mut spans: Vec<(usize, usize, usize)> = Vec::new(); // (start, end, depth)
    let mut starts: Vec<usize> = vec![0];
    let mut in_str = false;
    let mut esc = false;
    let mut i = 0;
    while i < bytes.len() {
        let c = bytes[i];
        if in_str {
            if esc {
                esc = false;
            } else if c == b'\\' {
                esc = true;
            } else if c == b'"' {
                in_str = false;
            }
        } else {
            match c {
                b'"' => in_str = true,
                b'{' => starts.push(i + 1),
                b'}' => {
                    if starts.len() > 1 {
                        starts.pop();
                    }
                }
                b';' => {
                    let d = starts.len() - 1;
                    let st = starts[d];
                    if d > 0 {
                        spans.push((st, i + 1, d));
                    }
                    starts[d] = i + 1;
                }
                _ => {}
            }
        }
        i += 1;
    }
    // drop the last statement of every block: a statement is last if only whitespace follows up to `}`
    let mut out: Vec<(usize, usize)> = Vec::new();
    for (st, en, _) in &spans {
        let rest = &text[*en..];
        let next = rest.trim_start();
        if next.starts_with('}') {
            continue;
        }
        out.push((*st, *en));
    }
    // larger spans first
    out.sort_by(|a, b| (b.1 - b.0).cmp(&(a.1 - a.0)));
    out
}

fn has_points(sp: &Value) -> bool {
    sp["plan"]["collect"].is_object()
}

fn refit_points(sp: &Value, class: &str, key: &str, b: &mut Budget) -> Option<Value> {
    if b.ok() && reproduces(sp, class, key).is_some() {
        return Some(sp.clone());
    }
    let mut free = sp.clone();
    free["plan"]["collect"] = json!("shipped");
    free["expect"] = json!({});
    let n = eval_findings(&free, false).1.map(|r| r.steps).unwrap_or(0);
    for k in 0..n.min(400) {
        if !b.ok() {
            return None;
        }
        let mut c = sp.clone();
        c["plan"]["collect"] = json!({"extra_points": [k]});
        if reproduces(&c, class, key).is_some() {
            return Some(c);
        }
    }
    None
}

/// `nlsim shrink <file>`: rewrites the replay file with a minimised scenario showing the same violation.
pub fn shrink_main(path: &str) -> i32 {
    let text = match std::fs::read_to_string(path) {
        Ok(t) => t,
        Err(_) => return 2,
    };
    let mut j: Value = match serde_json::from_str(&text) {
        Ok(j) => j,
        Err(_) => return 2,
    };
    let class = j["class"].as_str().unwrap_or("").to_string();
    let key = j["key"].as_str().unwrap_or("").to_string();
    let sp = j["spec"].clone();
    if reproduces(&sp, &class, &key).is_none() {
        return 0; // leave as is; confirmation will complain
    }
    let small = match sp["kind"].as_str() {
        Some("eval") => shrink_eval(&sp, &class, &key),
        Some("gc-ops") => crate::engine_gc::shrink(&sp, &class, &key),
        Some("session") => crate::engine_session::shrink(&sp, &class, &key),
        Some("purity") => crate::engine_purity::shrink(&sp, &class, &key),
        _ => sp.clone(),
    };
    if let Some(f) = reproduces(&small, &class, &key) {
        j["spec"] = small;
        j["detail"] = json!(f.detail);
        j["minimised"] = json!(true);
        let _ = std::fs::write(path, serde_json::to_string_pretty(&j).unwrap());
    }
    0
}
