//! Accumulator for what a batch of scenarios covered and found (merged across worker processes).

use crate::rng::Fold;
use serde_json::{json, Map, Value};
use std::collections::{BTreeMap, BTreeSet};
use std::io::Write;

#[derive(Clone, Copy, PartialEq, Eq, Debug)]
pub enum Tier {
    Quick,
    Thorough,
}

impl Tier {
    pub fn name(&self) -> &'static str {
        match self {
            Tier::Quick => "quick",
            Tier::Thorough => "thorough",
        }
    }
    pub fn parse(s: &str) -> Tier {
        if s == "thorough" {
            Tier::Thorough
        } else {
            Tier::Quick
        }
    }
}

#[derive(Clone, Debug)]
pub struct Violation {
    pub property: String,
    pub class: String,
    pub key: String,
    pub detail: String,
    /// explicit, self-contained description of the failing scenario (replayable)
    pub spec: Value,
    pub seed: u64,
    pub index: u64,
}

impl Violation {
    pub fn to_json(&self) -> Value {
        json!({
            "type": "violation",
            "property": self.property,
            "class": self.class,
            "key": self.key,
            "detail": self.detail,
            "spec": self.spec,
            "seed": self.seed,
            "index": self.index,
        })
    }
    pub fn from_json(v: &Value) -> Violation {
        Violation {
            property: v["property"].as_str().unwrap_or("").to_string(),
            class: v["class"].as_str().unwrap_or("").to_string(),
            key: v["key"].as_str().unwrap_or("").to_string(),
            detail: v["detail"].as_str().unwrap_or("").to_string(),
            spec: v["spec"].clone(),
            seed: v["seed"].as_u64().unwrap_or(0),
            index: v["index"].as_u64().unwrap_or(0),
        }
    }
}

pub struct Acc {
    pub counters: BTreeMap<String, u64>,
    pub distinct: BTreeMap<String, BTreeSet<u64>>,
    pub samples: Vec<Value>,
    pub violations: Vec<Violation>,
    /// per-scenario log hashes in index order (determinism self-test)
    pub log_hashes: Vec<(u64, u64)>,
    pub solo: bool,
    pub max_samples: usize,
}

impl Acc {
    pub fn new(solo: bool) -> Acc {
        Acc {
            counters: BTreeMap::new(),
            distinct: BTreeMap::new(),
            samples: Vec::new(),
            violations: Vec::new(),
            log_hashes: Vec::new(),
            solo,
            max_samples: 3,
        }
    }

    pub fn count(&mut self, key: &str, n: u64) {
        *self.counters.entry(key.to_string()).or_insert(0) += n;
    }

    pub fn max(&mut self, key: &str, n: u64) {
        let e = self.counters.entry(key.to_string()).or_insert(0);
        if n > *e {
            *e = n;
        }
    }

    pub fn distinct(&mut self, set: &str, h: u64) {
        self.distinct.entry(set.to_string()).or_default().insert(h);
    }

    pub fn distinct_str(&mut self, set: &str, s: &str) {
        let mut f = Fold::new();
        f.str(s);
        self.distinct(set, f.0);
    }

    pub fn sample(&mut self, v: Value) {
        if self.samples.len() < self.max_samples {
            self.samples.push(v);
        }
    }

    pub fn violation(&mut self, v: Violation) {
        // one per (class,key) per worker is enough; the first is the one with the lowest index
        if self
            .violations
            .iter()
            .any(|x| x.class == v.class && x.key == v.key && x.property == v.property)
        {
            self.count("violations_duplicate_key", 1);
            return;
        }
        self.violations.push(v);
    }

    /// In solo (trace) mode: announce what is about to run, so that the parent knows which explicit
    /// scenario killed the process if it dies.
    pub fn begin(&self, spec: &Value) {
        if self.solo {
            let mut o = std::io::stdout().lock();
            let _ = writeln!(o, "{}", json!({"type": "begin", "spec": spec}));
            let _ = o.flush();
        }
    }

    pub fn log(&mut self, index: u64, h: u64) {
        self.log_hashes.push((index, h));
    }

    pub fn summary_json(&self) -> Value {
        let mut distinct = Map::new();
        for (k, s) in &self.distinct {
            distinct.insert(k.clone(), Value::Array(s.iter().map(|h| json!(h)).collect()));
        }
        json!({
            "type": "summary",
            "counters": self.counters,
            "distinct": distinct,
            "samples": self.samples,
            "log_hashes": self.log_hashes.iter().map(|(i, h)| json!([i, h])).collect::<Vec<_>>(),
        })
    }

    pub fn merge_summary(&mut self, v: &Value) {
        if let Some(c) = v["counters"].as_object() {
            for (k, n) in c {
                let n = n.as_u64().unwrap_or(0);
                if k.starts_with("max_") {
                    self.max(k, n);
                } else {
                    self.count(k, n);
                }
            }
        }
        if let Some(d) = v["distinct"].as_object() {
            for (k, arr) in d {
                if let Some(arr) = arr.as_array() {
                    let set = self.distinct.entry(k.clone()).or_default();
                    for h in arr {
                        if let Some(h) = h.as_u64() {
                            set.insert(h);
                        }
                    }
                }
            }
        }
        if let Some(s) = v["samples"].as_array() {
            for x in s {
                if self.samples.len() < 6 {
                    self.samples.push(x.clone());
                }
            }
        }
        if let Some(l) = v["log_hashes"].as_array() {
            for x in l {
                if let (Some(i), Some(h)) = (x[0].as_u64(), x[1].as_u64()) {
                    self.log_hashes.push((i, h));
                }
            }
        }
    }
}
