//! heap-sim (C03 a): the whole interpreter under collection schedules and allocator perturbation.

use crate::acc::{Acc, Tier, Violation};
use crate::alloc;
use crate::engine_crash::report;
use crate::gen_program;
use crate::replay::variance_key;
use crate::rng::{mix, Fold, Rng};
use crate::runner::{self, Plan};
use crate::sim::{CollectPlan, Injected};
use crate::spec;
use serde_json::json;

pub const TAG: u64 = 0xC03A;
pub const PROPERTY: &str = "C03";

pub const CLASSES: &[&str] = &[
    "use-after-release",
    "double-release",
    "release-unknown",
    "access-unknown",
    "reachable-reclaimed",
    "survivor-changed",
    "result-invalid",
    "managed-list-corrupt",
    "schedule-variance",
    "allocator-variance",
    "unstable-outcome",
    "progress",
];

pub fn scenarios(tier: Tier) -> u64 {
    match tier {
        Tier::Quick => 12_000,
        Tier::Thorough => 300_000,
    }
}

fn plan(collect: CollectPlan, mode: u8, budget: u64, every_step_audit: bool) -> Plan {
    let mut p = Plan::plain();
    p.collect = collect;
    p.alloc_mode = mode;
    p.budget = budget;
    p.track_survivors = true;
    p.audit_every_step = every_step_audit;
    p
}

pub fn scenario(acc: &mut Acc, seed: u64, index: u64, tier: Tier) {
    let s = mix(seed, TAG, index);
    let mut rng = Rng::new(s);
    let fail_pct = if rng.chance(1, 6) { 50 } else { 0 };
    let directed = crate::directed::all();
    let prog = gen_program::generate(rng.next_u64(), true, fail_pct);
    let src = if (index as usize) < directed.len() {
        acc.count("directed_programs", 1);
        directed[index as usize].1.as_str()
    } else {
        prog.src.as_str()
    };
    acc.count("programs", 1);
    let moves0 = alloc::moves();
    let scattered0 = alloc::scattered();

    let ref_budget = if tier == Tier::Thorough { 40_000 } else { 12_000 };
    let p0 = plan(CollectPlan::Shipped, alloc::PLAIN, ref_budget, false);
    acc.begin(&spec::eval_spec("heap-sim", src, &p0));
    let r0 = runner::run_eval(src, &p0, 1, true);
    acc.count("runs", 1);
    acc.count("sim_steps", r0.steps);
    let mut lf = Fold::new();
    lf.u64(r0.log_hash);
    if r0.injected == Injected::Budget {
        acc.count("discarded_over_budget", 1);
        acc.log(index, lf.0);
        return;
    }
    if let Injected::Guard(g) = &r0.injected {
        acc.count(&format!("guard:{}", g), 1);
    }
    account(acc, &r0, false);
    report(acc, CLASSES, PROPERTY, "heap-sim", src, &p0, &r0, seed, index);
    acc.sample(json!({"program": src, "steps": r0.steps, "collections": r0.stats.collections, "outcome": r0.outcome.render()}));
    if !r0.outcome.is_ok() {
        acc.count("fault_natural_failure_fired", 1);
    }

    let n = r0.steps;
    let budget = 4 * n + 1000;
    // variants: (schedule, allocator mode)
    let every_ok = n <= 400 || (tier == Tier::Thorough && n <= 3000);
    let mut variants: Vec<(CollectPlan, u8, bool)> = Vec::new();
    let k = 3 + rng.usize(3);
    for i in 0..k {
        let sched = match (i, rng.below(3)) {
            (0, _) if every_ok => CollectPlan::Every,
            (_, 0) => CollectPlan::Shipped,
            _ => {
                let m = 1 + rng.below(4);
                let mut pts: Vec<u64> = (0..m).map(|_| rng.below(n.max(1))).collect();
                pts.sort();
                pts.dedup();
                CollectPlan::Points(pts)
            }
        };
        let mode = match rng.below(3) {
            0 => alloc::PLAIN,
            1 => alloc::POISON,
            _ => alloc::MOVE,
        };
        let every_audit = n <= 300 && rng.chance(1, 4);
        if sched == CollectPlan::Shipped && mode == alloc::PLAIN && !every_audit {
            continue;
        }
        variants.push((sched, mode, every_audit));
    }
    // one more, without drawing: the shipped schedule with the boxes scattered over all alignments
    // the layout allows (alloc.rs, SCATTER) - an outcome must not depend on the low bits of an address
    variants.push((CollectPlan::Shipped, alloc::SCATTER0 + (mix(seed, TAG, index ^ 0x5CA7) % 200) as u8, false));
    for (sched, mode, every_audit) in variants {
        let p = plan(sched.clone(), mode, budget, every_audit);
        acc.begin(&spec::eval_spec("heap-sim", src, &p));
        let r = runner::run_eval(src, &p, 1, true);
        acc.count("runs", 1);
        acc.count("sim_steps", r.steps);
        acc.count(&format!("variant_schedule:{}", sched.name()), 1);
        acc.count(&format!("variant_allocator:{}", alloc::mode_class(mode)), 1);
        lf.u64(r.log_hash);
        account(acc, &r, true);
        report(acc, CLASSES, PROPERTY, "heap-sim", src, &p, &r, seed, index);
        match &r.injected {
            Injected::Budget => {
                let mut sp = spec::eval_spec("heap-sim", src, &p);
                sp["expect"] = json!({"class": "progress", "key": "budget"});
                acc.violation(Violation {
                    property: PROPERTY.into(),
                    class: "progress".into(),
                    key: "budget".into(),
                    detail: format!("under {} / {} the run did not finish within 4 x {} + 1000 steps", sched.name(), alloc::mode_name(mode), n),
                    spec: sp,
                    seed,
                    index,
                });
            }
            Injected::None => {
                if r.digest() != r0.digest() {
                    // Make the report deterministic: prefer the `move` allocator mode (every stale
                    // read returns poison there), then decide which dimension is responsible.
                    let mut pm = p.clone();
                    pm.alloc_mode = alloc::MOVE;
                    let rm = runner::run_eval(src, &pm, 1, true);
                    let mut pp = p.clone();
                    pp.alloc_mode = alloc::PLAIN;
                    let rp = runner::run_eval(src, &pp, 1, true);
                    let again = runner::run_eval(src, &p, 1, true);
                    let (class, rep_plan, rep) = if sched != CollectPlan::Shipped && rp.digest() != r0.digest() && runner::run_eval(src, &pp, 1, true).digest() == rp.digest() {
                        ("schedule-variance", pp, rp)
                    } else if rm.digest() != r0.digest() {
                        ("allocator-variance", pm, rm)
                    } else if again.digest() == r.digest() {
                        (if sched != CollectPlan::Shipped && mode == alloc::PLAIN { "schedule-variance" } else { "allocator-variance" }, p.clone(), r.clone())
                    } else {
                        ("unstable-outcome", p.clone(), r.clone())
                    };
                    let mut sp = spec::eval_spec("heap-sim", src, &rep_plan);
                    let key = variance_key(&r0, &rep);
                    sp["expect"] = json!({"class": class, "key": key});
                    acc.violation(Violation {
                        property: PROPERTY.into(),
                        class: class.into(),
                        key,
                        detail: format!(
                            "outcome depends on the collection schedule / allocator: shipped+plain gives {} ; {}+{} gives {}",
                            r0.digest(),
                            rep_plan.collect.name(),
                            alloc::mode_name(rep_plan.alloc_mode),
                            rep.digest()
                        ),
                        spec: sp,
                        seed,
                        index,
                    });
                }
            }
            Injected::Guard(g) => acc.count(&format!("guard:{}", g), 1),
            _ => {}
        }
    }
    acc.count("fault_allocator_realloc_moved", alloc::moves() - moves0);
    acc.count("fault_allocator_blocks_scattered", alloc::scattered() - scattered0);
    acc.log(index, lf.0);
}

fn account(acc: &mut Acc, r: &runner::RunResult, variant: bool) {
    acc.count("collections", r.stats.collections);
    acc.count("collections_with_live_heap", r.stats.collections_with_live_heap);
    acc.count("freed_by_collections", r.stats.freed_by_collections);
    acc.count("audits", r.stats.audits);
    acc.count("probe_collection_with_cyclic_array_live", r.stats.cyclic_at_collection);
    acc.count("probe_collection_with_shared_object_live", r.stats.shared_at_collection);
    acc.max("max_reachable_objects_at_audit", r.stats.max_reach as u64);
    acc.max("max_frames", r.stats.max_frames as u64);
    if variant {
        acc.count("fault_extra_collection", r.stats.extra_collections);
    }
    for s in &r.shapes {
        acc.distinct("heap_shapes_at_collection", *s);
    }
    if r.stats.collections_with_live_heap > 0 {
        acc.distinct("nontrivial_cases", r.log_hash);
    }
}
