//! Miri adjunct (thorough tier): a few of the same scenarios, in-process, with quarantine off, so
//! that Miri's own detectors (use after free, out of bounds, double free, leaks at exit, data races)
//! act as an oracle that does not depend on the hooks. `nlsim miri <seed> <part>`.

use crate::engine_gc;
use crate::engine_purity;
use crate::engine_session;
use crate::gen_program;
use crate::rng::{mix, Rng};
use crate::runner::{self, Plan};
use crate::shadow;
use crate::sim::CollectPlan;
use std::sync::atomic::Ordering;

pub fn main(seed: u64, part: &str, n: u64) -> i32 {
    shadow::QUARANTINE.store(false, Ordering::Relaxed);
    let mut problems = 0;
    match part {
        "gc" => {
            for i in 0..n {
                let mut rng = Rng::new(mix(seed, 0x3141, i));
                let ops = engine_gc::gen_ops_pub(&mut rng);
                let r = engine_gc::run_ops(&ops);
                if !r.findings.is_empty() {
                    println!("finding in gc sequence {}: {:?}", i, r.findings[0]);
                    problems += 1;
                }
            }
        }
        "programs" => {
            // the cheap directed programs first (Miri is ~100x slower than native), then small generated ones
            let directed: Vec<(&str, String)> = crate::directed::builtin()
                .into_iter()
                .filter(|(n, _)| !n.contains("deep-recursion") && !n.contains("loop-garbage") && !n.contains("long"))
                .collect();
            for i in 0..n {
                let src = if (i as usize) < directed.len().min(8) {
                    directed[i as usize].1.clone()
                } else {
                    let mut rng = Rng::new(mix(seed, 0x3142, i));
                    let mut cfg = gen_program::Swarm::draw(&mut rng, true);
                    cfg.stmts = 4 + rng.usize(5);
                    cfg.loop_max = 2;
                    gen_program::Gen::new(&mut rng, cfg).program().src
                };
                let mut steps = 0;
                for every in [false, true] {
                    if every && steps > 150 {
                        continue;
                    }
                    let mut plan = Plan::plain();
                    plan.budget = 1_500;
                    plan.track_survivors = true;
                    if every {
                        plan.collect = CollectPlan::Every;
                    }
                    let r = runner::run_eval(&src, &plan, 1, true);
                    steps = r.steps;
                    for f in &r.findings {
                        if !f.class.starts_with("harness:") {
                            println!("finding in program {}: {} [{}] {}", i, f.class, f.key, f.detail);
                            problems += 1;
                        }
                    }
                }
            }
        }
        "sessions" => {
            for i in 0..n {
                let sp = engine_session::small_session(seed, i);
                let r = engine_session::run_session(&sp, false);
                for f in &r.findings {
                    if f.class != "read-of-name-declared-by-failed-line" {
                        println!("finding in session {}: {} [{}] {}", i, f.class, f.key, f.detail);
                        problems += 1;
                    }
                }
            }
        }
        "threads" => {
            // plain threads, no baton: Miri's scheduler and data-race detector decide
            // hand-written programs that touch every builtin and every heap-related opcode, so that any
            // unsynchronised process-wide state used inside a single instruction is exercised by all
            // threads, followed by generated ones
            let coverage: Vec<String> = [
                // the very first evaluations of the process happen on three threads at once (lazily
                // initialised process-wide tables are filled under contention), with identifiers and
                // text outside ASCII
                "stel één = 40 + 2; één",
                "stel café = [1.5, \"ß\"]; café",
                "functie él(ñ) { [ñ, lengte(ñ)] } él(\"üö\")",
                "stel s = \"hallo\"; stel r = [s[0], s[1], s[-1], \"日本\"[1]]; s[0] = \"J\"; [r, s, lengte(s), lengte(r)]",
                "stel a = [1, \"a\", 2.5]; a[0] = [a[1], a[2]]; functie f(x) { [x, string(7), type(x)] }; [f(a), f(1.5), f(\"z\")]",
                // no print here: stdout's lock would order the threads (a happens-before edge hides races)
                "[int(\"12\"), float(\"2.5\"), bool(\"\"), string(nee), int(2.9), float(3), type([1]), string(2.5)]",
                "functie g(n) { als n < 1 { antwoord [n]; }; [n, g(n - 1)] }; stel x = 1.5 + 2.25; stel y = -x; [g(3), x * y, x / 2.0, 7 % 3, x > y, \"a\" < \"b\"]",
                "stel i = 0; stel k = []; zolang i < 3 { i = i + 1; k = [k, string(i)]; als i == 2 { volgende; }; }; k",
                "lengte(5)",
                "[1, 2][7]",
                "onbekend",
            ]
            .iter()
            .map(|s| s.to_string())
            .collect();
            let progs: Vec<String> = coverage
                .into_iter()
                .chain((0..n as usize)
                .map(|i| {
                    let mut rng = Rng::new(mix(seed, 0x3143, i as u64));
                    let mut cfg = gen_program::Swarm::draw(&mut rng, true);
                    cfg.stmts = 3 + rng.usize(4);
                    cfg.loop_max = 2;
                    cfg.w_print = 0;
                    gen_program::Gen::new(&mut rng, cfg).program().src
                }))
                .collect();
            // No hooks here (main does not install them for this part): the harness's own locks would
            // order the threads and hide a race from Miri's detector.
            // the threads go first; what each evaluation should have given is computed afterwards, on
            // the main thread alone
            let mut hs = Vec::new();
            for t in 0..3usize {
                let progs = progs.clone();
                hs.push(std::thread::spawn(move || {
                    let mut got: Vec<(usize, String)> = Vec::new();
                    for k in 0..progs.len() {
                        let i = (k + t) % progs.len();
                        got.push((i, bare_digest(&progs[i])));
                    }
                    got
                }));
            }
            let results: Vec<Option<Vec<(usize, String)>>> = hs.into_iter().map(|h| h.join().ok()).collect();
            let expect: Vec<String> = progs.iter().map(|p| bare_digest(p)).collect();
            for (t, r) in results.into_iter().enumerate() {
                match r {
                    None => problems += 1,
                    Some(got) => {
                        for (i, d) in got {
                            if d != expect[i] {
                                println!("thread {} program {}: {} != {}", t, i, d, expect[i]);
                                problems += 1;
                            }
                        }
                    }
                }
            }
        }
        _ => return 2,
    }
    println!("miri-adjunct part={} n={} problems={}", part, n, problems);
    if problems > 0 {
        1
    } else {
        0
    }
}

/// Evaluate without any harness involvement and render / release the result through the public accessors.
fn bare_digest(src: &str) -> String {
    use nederlang::object::Type;
    let r = std::panic::catch_unwind(|| nederlang::eval(src));
    match r {
        Err(_) => "panic".to_string(),
        Ok(Err(e)) => format!("err {:?}", e),
        Ok(Ok(v)) => {
            let mut out = String::new();
            let mut seen: Vec<usize> = Vec::new();
            let mut objs: Vec<nederlang::object::Object> = Vec::new();
            fn go(o: nederlang::object::Object, out: &mut String, seen: &mut Vec<usize>, objs: &mut Vec<nederlang::object::Object>) {
                match o.tag() {
                    Type::Null => out.push_str("null"),
                    Type::Bool => out.push_str(if o.as_bool() { "ja" } else { "nee" }),
                    Type::Int => out.push_str(&o.as_int().to_string()),
                    Type::Function => out.push_str("fn"),
                    Type::Float => {
                        let a = nederlang::verif::address(o);
                        if !seen.contains(&a) {
                            seen.push(a);
                            objs.push(o);
                        }
                        out.push_str(&format!("{:?}", o.as_f64()));
                    }
                    Type::String => {
                        let a = nederlang::verif::address(o);
                        if !seen.contains(&a) {
                            seen.push(a);
                            objs.push(o);
                        }
                        out.push_str(&format!("{:?}", o.as_str()));
                    }
                    Type::Array => {
                        let a = nederlang::verif::address(o);
                        if seen.contains(&a) {
                            out.push_str("^");
                            return;
                        }
                        seen.push(a);
                        objs.push(o);
                        out.push('[');
                        for e in o.as_vec().iter() {
                            go(*e, out, seen, objs);
                            out.push(',');
                        }
                        out.push(']');
                    }
                }
            }
            go(v, &mut out, &mut seen, &mut objs);
            for o in objs {
                o.free();
            }
            format!("ok {}", out)
        }
    }
}
