//! Miri adjunct (thorough tier): a few of the same scenarios, in-process, with quarantine off, so
//! that Miri's own detectors (use after free, out of bounds, double free, leaks at exit, data races)
//! act as an oracle that does not depend on the hooks. `nlsim miri <seed> <part>`.

use crate::engine_gc;
use crate::engine_purity;
use crate::engine_session;
use crate::gen_program;
use crate::rng::{mix, Rng};
use crate::runner::{self, Plan};
use crate::shadow;
use crate::sim::CollectPlan;
use std::sync::atomic::Ordering;

pub fn main(seed: u64, part: &str, n: u64) -> i32 {
    shadow::QUARANTINE.store(false, Ordering::Relaxed);
    let mut problems = 0;
    match part {
        "gc" => {
            for i in 0..n {
                let mut rng = Rng::new(mix(seed, 0x3141, i));
                let ops = engine_gc::gen_ops_pub(&mut rng);
                let r = engine_gc::run_ops(&ops);
                if !r.findings.is_empty() {
                    println!("finding in gc sequence {}: {:?}", i, r.findings[0]);
                    problems += 1;
                }
            }
        }
        "programs" => {
            // the cheap directed programs first (Miri is ~100x slower than native), then small generated ones
            let directed: Vec<(&str, String)> = crate::directed::builtin()
                .into_iter()
                .filter(|(n, _)| !n.contains("deep-recursion") && !n.contains("loop-garbage") && !n.contains("long"))
                .collect();
            for i in 0..n {
                let src = if (i as usize) < directed.len().min(8) {
                    directed[i as usize].1.clone()
                } else {
                    let mut rng = Rng::new(mix(seed, 0x3142, i));
                    let mut cfg = gen_program::Swarm::draw(&mut rng, true);
                    cfg.stmts = 4 + rng.usize(5);
                    cfg.loop_max = 2;
                    gen_program::Gen::new(&mut rng, cfg).program().src
                };
                let mut steps = 0;
                for every in [false, true] {
                    if every && steps > 150 {
                        continue;
                    }
                    let mut plan = Plan::plain();
                    plan.budget = 1_500;
                    plan.track_survivors = true;
                    if every {
                        plan.collect = CollectPlan::Every;
                    }
                    let r = runner::run_eval(&src, &plan, 1, true);
                    steps = r.steps;
                    for f in &r.findings {
                        if !f.class.starts_with("harness:") {
                            println!("finding in program {}: {} [{}] {}", i, f.class, f.key, f.detail);
                            problems += 1;
                        }
                    }
                }
            }
        }
        "sessions" => {
            for i in 0..n {
                let sp = engine_session::small_session(seed, i);
                let r = engine_session::run_session(&sp, false);
                for f in &r.findings {
                    if f.class != "read-of-name-declared-by-failed-line" {
                        println!("finding in session {}: {} [{}] {}", i, f.class, f.key, f.detail);
                        problems += 1;
                    }
                }
            }
        }
        "threads" => {
            // plain threads, no baton: Miri's scheduler and data-race detector decide
            let progs: Vec<String> = (0..n as usize)
                .map(|i| {
                    let mut rng = Rng::new(mix(seed, 0x3143, i as u64));
                    let mut cfg = gen_program::Swarm::draw(&mut rng, true);
                    cfg.stmts = 3 + rng.usize(4);
                    cfg.loop_max = 2;
                    gen_program::Gen::new(&mut rng, cfg).program().src
                })
                .collect();
            let expect: Vec<String> = progs.iter().map(|p| engine_purity::plain_digest(p)).collect();
            let mut hs = Vec::new();
            for t in 0..3usize {
                let progs = progs.clone();
                let expect = expect.clone();
                hs.push(std::thread::spawn(move || {
                    let mut bad = 0;
                    for k in 0..progs.len() {
                        let i = (k + t) % progs.len();
                        let mut plan = Plan::plain();
                        plan.budget = 3_000;
                        let r = runner::run_eval(&progs[i], &plan, (t * 1000 + k + 1) as u64, false);
                        let d = engine_purity::digest_of(&r.outcome, &r.out, &r.injected);
                        if d != expect[i] && d != engine_purity::DISCARD && expect[i] != engine_purity::DISCARD {
                            println!("thread {} program {}: {} != {}", t, i, d, expect[i]);
                            bad += 1;
                        }
                    }
                    bad
                }));
            }
            for h in hs {
                problems += h.join().unwrap_or(1);
            }
        }
        _ => return 2,
    }
    println!("miri-adjunct part={} n={} problems={}", part, n, problems);
    if problems > 0 {
        1
    } else {
        0
    }
}
