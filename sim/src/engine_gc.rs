use crate::sim::Finding;
use serde_json::Value;

pub fn replay(_sp: &Value, _trace: bool) -> Vec<Finding> {
    Vec::new()
}

pub fn shrink(sp: &Value, _class: &str, _key: &str) -> Value {
    sp.clone()
}
