//! gc-sim (C03 b): the collector alone, driven through its public API with seeded operation
//! sequences over a small object universe, checked operation by operation against a reachability model.

use crate::acc::{Acc, Tier, Violation};
use crate::rng::{mix, Fold, Rng};
use crate::shadow;
use crate::sim::{self, Finding, CTX};
use nederlang::object::{FromString, FromVec, Object};
use nederlang::verif::{self, GC};
use serde_json::{json, Value};
use std::collections::BTreeSet;

pub const TAG: u64 = 0xC03B;
pub const PROPERTY: &str = "C03";

pub fn scenarios(tier: Tier) -> u64 {
    match tier {
        Tier::Quick => 120_000,
        Tier::Thorough => 3_000_000,
    }
}

#[derive(Clone, Debug, PartialEq)]
enum Val {
    F(f64),
    S(String),
    A(Vec<Option<usize>>), // Some(handle index) or None = immediate
}

#[derive(Clone, Debug, PartialEq)]
enum Own {
    Managed,
    Caller,
    Released,
}

struct MObj {
    val: Val,
    own: Own,
}

struct World {
    gc: Option<GC>,
    side: GC, // a second collector, used to make caller-owned objects
    handles: Vec<Object>,
    model: Vec<MObj>,
    roots: Vec<usize>,
    findings: Vec<Finding>,
    stats_collections: u64,
    stats_freed: u64,
    shapes: BTreeSet<u64>,
}

fn finding(w: &mut World, class: &str, key: &str, detail: String) {
    if w.findings.len() < 4 {
        w.findings.push(Finding {
            class: class.into(),
            key: key.into(),
            detail,
        });
    }
}

impl World {
    fn new() -> World {
        World {
            gc: Some(GC::new()),
            side: GC::new(),
            handles: Vec::new(),
            model: Vec::new(),
            roots: Vec::new(),
            findings: Vec::new(),
            stats_collections: 0,
            stats_freed: 0,
            shapes: BTreeSet::new(),
        }
    }

    fn live(&self) -> Vec<usize> {
        (0..self.model.len()).filter(|i| self.model[*i].own != Own::Released).collect()
    }

    fn pick(&self, sel: u64, pred: impl Fn(&MObj) -> bool) -> Option<usize> {
        let c: Vec<usize> = (0..self.model.len()).filter(|i| pred(&self.model[*i])).collect();
        if c.is_empty() {
            None
        } else {
            Some(c[(sel % c.len() as u64) as usize])
        }
    }

    fn elem_obj(&self, e: &Option<usize>, imm: i64) -> Object {
        match e {
            Some(h) => self.handles[*h],
            None => Object::int(imm as isize),
        }
    }

    /// Model of `GC::untrace`: removes the object and, recursively through managed arrays, its elements.
    fn model_untrace(&mut self, h: usize) {
        if self.model[h].own != Own::Managed {
            return;
        }
        self.model[h].own = Own::Caller;
        if let Val::A(els) = self.model[h].val.clone() {
            for e in els.into_iter().flatten() {
                self.model_untrace(e);
            }
        }
    }

    /// Reachability closure from the roots through every live array.
    fn model_reachable(&self, roots: &[usize]) -> BTreeSet<usize> {
        let mut seen = BTreeSet::new();
        let mut stack: Vec<usize> = roots.to_vec();
        while let Some(h) = stack.pop() {
            if self.model[h].own == Own::Released || !seen.insert(h) {
                continue;
            }
            if let Val::A(els) = &self.model[h].val {
                for e in els.iter().flatten() {
                    stack.push(*e);
                }
            }
        }
        seen
    }

    /// shadow alive set == model alive set, managed list == model managed set, values intact
    fn check(&mut self, after: &str) {
        let _g = sim::enter_harness();
        let sh = shadow::lock();
        let mut problems: Vec<(String, String, String)> = Vec::new();
        for i in 0..self.model.len() {
            let a = verif::address(self.handles[i]);
            let alive = sh.is_alive(a);
            let want = self.model[i].own != Own::Released;
            let kind = match self.model[i].val {
                Val::F(_) => "float",
                Val::S(_) => "string",
                Val::A(_) => "array",
            };
            if want && !alive {
                problems.push((
                    "reachable-reclaimed".into(),
                    format!("{}@{}", kind, after),
                    format!("object h{} ({}, {:?}) is released but the model says it is still {}", i, kind, self.model[i].val, if self.model[i].own == Own::Managed { "reachable from a root" } else { "owned by the caller" }),
                ));
                continue;
            }
            if !want && alive && shadow::QUARANTINE.load(std::sync::atomic::Ordering::Relaxed) {
                problems.push((
                    "unreachable-retained".into(),
                    format!("{}@{}", kind, after),
                    format!("object h{} ({}) is still allocated but the model says it was reclaimed", i, kind),
                ));
                continue;
            }
            if want {
                // value intact
                let o = self.handles[i];
                let ok = match &self.model[i].val {
                    Val::F(f) => o.as_f64().to_bits() == f.to_bits(),
                    Val::S(s) => o.as_str() == s,
                    Val::A(els) => {
                        let v = o.as_vec();
                        v.len() == els.len()
                            && v.iter().zip(els.iter()).all(|(x, e)| match e {
                                Some(h) => x.is_heap_allocated() && verif::address(*x) == verif::address(self.handles[*h]),
                                None => !x.is_heap_allocated(),
                            })
                    }
                };
                if !ok {
                    problems.push((
                        "survivor-changed".into(),
                        format!("{}@{}", kind, after),
                        format!("object h{} ({}) no longer holds its value {:?}", i, kind, self.model[i].val),
                    ));
                }
            }
        }
        if let Some(gc) = &self.gc {
            let managed: Vec<usize> = gc.verif_objects().iter().map(|o| verif::address(*o)).collect();
            let mut set = BTreeSet::new();
            for a in &managed {
                if !set.insert(*a) {
                    problems.push(("managed-list-corrupt".into(), "duplicate".into(), format!("{} is managed twice after {}", sh.describe(*a), after)));
                }
            }
            let want: BTreeSet<usize> = (0..self.model.len())
                .filter(|i| self.model[*i].own == Own::Managed)
                .map(|i| verif::address(self.handles[i]))
                .collect();
            if set != want {
                problems.push((
                    "managed-list-corrupt".into(),
                    format!("set@{}", after),
                    format!("collector manages {} object(s), model says {} after {}", set.len(), want.len(), after),
                ));
            }
        }
        drop(sh);
        for (c, k, d) in problems {
            finding(self, &c, &k, d);
        }
    }
}

/// Applies one operation (explicit, self-describing JSON) to the world and the model.
fn apply(w: &mut World, op: &Value) {
    let name = op[0].as_str().unwrap_or("");
    let n = |i: usize| op[i].as_u64().unwrap_or(0);
    match name {
        "float" => {
            let f = op[1].as_f64().unwrap_or(0.5);
            if let Some(gc) = w.gc.as_mut() {
                let o = Object::float(f, gc);
                w.handles.push(o);
                w.model.push(MObj { val: Val::F(f), own: Own::Managed });
            }
        }
        "str" => {
            let s = op[1].as_str().unwrap_or("").to_string();
            if let Some(gc) = w.gc.as_mut() {
                let o = Object::string(s.as_str(), gc);
                w.handles.push(o);
                w.model.push(MObj { val: Val::S(s), own: Own::Managed });
            }
        }
        "arr" => {
            // elements: selectors into the live handles, or null for an immediate
            let live = w.live();
            let mut els: Vec<Option<usize>> = Vec::new();
            if let Some(a) = op[1].as_array() {
                for e in a {
                    match e.as_u64() {
                        Some(sel) if !live.is_empty() => els.push(Some(live[(sel % live.len() as u64) as usize])),
                        _ => els.push(None),
                    }
                }
            }
            // no edges from the new (managed) array to released objects; edges to caller-owned are fine
            let vec: Vec<Object> = els.iter().enumerate().map(|(i, e)| w.elem_obj(e, i as i64)).collect();
            if let Some(gc) = w.gc.as_mut() {
                let o = Object::array(vec, gc);
                w.handles.push(o);
                w.model.push(MObj { val: Val::A(els), own: Own::Managed });
            }
        }
        "link" => {
            // array (live, non-empty) . slot = target (any live object: a caller-owned array may refer
            // to a managed object, as a handed-out result that a variable still refers to does)
            let arr = w.pick(n(1), |m| m.own != Own::Released && matches!(&m.val, Val::A(v) if !v.is_empty()));
            if let Some(a) = arr {
                let tgt = w.pick(n(3), |m| m.own != Own::Released);
                if let Some(t) = tgt {
                    let len = match &w.model[a].val {
                        Val::A(v) => v.len(),
                        _ => 0,
                    };
                    let slot = (n(2) as usize) % len;
                    let _g = sim::enter_harness();
                    let mut h = w.handles[a];
                    h.as_vec_mut()[slot] = w.handles[t];
                    if let Val::A(v) = &mut w.model[a].val {
                        v[slot] = Some(t);
                    }
                }
            }
        }
        "unlink" => {
            let arr = w.pick(n(1), |m| m.own != Own::Released && matches!(&m.val, Val::A(v) if !v.is_empty()));
            if let Some(a) = arr {
                let len = match &w.model[a].val {
                    Val::A(v) => v.len(),
                    _ => 0,
                };
                let slot = (n(2) as usize) % len;
                let _g = sim::enter_harness();
                let mut h = w.handles[a];
                h.as_vec_mut()[slot] = Object::null();
                if let Val::A(v) = &mut w.model[a].val {
                    v[slot] = None;
                }
            }
        }
        "root" => {
            if let Some(h) = w.pick(n(1), |m| m.own != Own::Released) {
                w.roots.push(h);
            }
        }
        "unroot" => {
            if !w.roots.is_empty() {
                let i = (n(1) as usize) % w.roots.len();
                w.roots.remove(i);
            }
        }
        "collect" => {
            if w.gc.is_none() {
                return;
            }
            // roots split into slices (with duplicates) as the pattern says
            let pattern: Vec<Vec<u64>> = op[1]
                .as_array()
                .map(|a| {
                    a.iter()
                        .map(|s| s.as_array().map(|x| x.iter().filter_map(|v| v.as_u64()).collect()).unwrap_or_default())
                        .collect()
                })
                .unwrap_or_default();
            // roots whose object was released by the caller are dropped first (a caller would not pass them)
            let roots_now: Vec<usize> = w.roots.iter().cloned().filter(|h| w.model[*h].own != Own::Released).collect();
            w.roots = roots_now.clone();
            let mut slices: Vec<Vec<Object>> = Vec::new();
            let mut used: Vec<usize> = Vec::new();
            for s in &pattern {
                let mut v = Vec::new();
                for sel in s {
                    if *sel == u64::MAX || roots_now.is_empty() {
                        v.push(Object::int(7));
                    } else {
                        let h = roots_now[(*sel % roots_now.len() as u64) as usize];
                        used.push(h);
                        v.push(w.handles[h]);
                    }
                }
                slices.push(v);
            }
            // every current root appears at least once: append the missing ones to the last slice
            if slices.is_empty() {
                slices.push(Vec::new());
            }
            for h in &roots_now {
                if !used.contains(h) {
                    let last = slices.len() - 1;
                    slices[last].push(w.handles[*h]);
                }
            }
            let before = w.model.iter().filter(|m| m.own == Own::Managed).count();
            // model: managed objects not reachable from the roots are reclaimed
            let reach = w.model_reachable(&roots_now);
            // shape of the reachable graph (distinct-state measure)
            let mut f = Fold::new();
            for h in &reach {
                let m = &w.model[*h];
                f.u64(match &m.val {
                    Val::F(_) => 1,
                    Val::S(_) => 2,
                    Val::A(v) => 3 + v.len() as u64 * 8,
                });
                f.u64(if m.own == Own::Managed { 1 } else { 2 });
                if let Val::A(v) = &m.val {
                    for e in v {
                        f.u64(e.map(|x| x as u64 + 1).unwrap_or(0));
                    }
                }
            }
            f.u64(roots_now.len() as u64);
            w.shapes.insert(f.0);
            for i in 0..w.model.len() {
                if w.model[i].own == Own::Managed && !reach.contains(&i) {
                    w.model[i].own = Own::Released;
                }
            }
            // A caller-owned array that was not passed as a root may have referred to an object that has
            // just been reclaimed (legitimately: nothing the collector was told about reached it). The
            // simulated caller does not keep such dangling references: it clears the slot.
            let mut clear: Vec<(usize, usize)> = Vec::new();
            for i in 0..w.model.len() {
                if w.model[i].own == Own::Caller {
                    if let Val::A(v) = &w.model[i].val {
                        for (slot, e) in v.iter().enumerate() {
                            if let Some(t) = e {
                                if w.model[*t].own == Own::Released {
                                    clear.push((i, slot));
                                }
                            }
                        }
                    }
                }
            }
            let after = w.model.iter().filter(|m| m.own == Own::Managed).count();
            w.stats_freed += (before - after) as u64;
            w.stats_collections += 1;
            let refs: Vec<&[Object]> = slices.iter().map(|v| v.as_slice()).collect();
            w.gc.as_mut().unwrap().run(&refs);
            for (i, slot) in clear {
                let _g = sim::enter_harness();
                let mut h = w.handles[i];
                h.as_vec_mut()[slot] = Object::null();
                if let Val::A(v) = &mut w.model[i].val {
                    v[slot] = None;
                }
            }
        }
        "untrace" => {
            if w.gc.is_none() {
                return;
            }
            if let Some(h) = w.pick(n(1), |m| m.own != Own::Released) {
                let o = w.handles[h];
                w.gc.as_mut().unwrap().untrace(o);
                w.model_untrace(h);
            }
        }
        "release" => {
            // the caller releases one of its objects that no live array and no root refers to
            let referenced: BTreeSet<usize> = {
                let mut s: BTreeSet<usize> = w.roots.iter().cloned().collect();
                for m in &w.model {
                    if m.own != Own::Released {
                        if let Val::A(v) = &m.val {
                            for e in v.iter().flatten() {
                                s.insert(*e);
                            }
                        }
                    }
                }
                s
            };
            let c: Vec<usize> = (0..w.model.len())
                .filter(|i| w.model[*i].own == Own::Caller && !referenced.contains(i))
                .collect();
            if !c.is_empty() {
                let h = c[(n(1) % c.len() as u64) as usize];
                let _g = sim::enter_harness();
                w.handles[h].free();
                w.model[h].own = Own::Released;
            }
        }
        "adopt" => {
            // an object made elsewhere (another collector, then handed over) is given to this collector
            if w.gc.is_none() {
                return;
            }
            let (o, val) = match n(1) % 3 {
                0 => (Object::float(2.25, &mut w.side), Val::F(2.25)),
                1 => (Object::string("adopted", &mut w.side), Val::S("adopted".into())),
                _ => (Object::array(vec![Object::int(0), Object::int(1)], &mut w.side), Val::A(vec![None, None])),
            };
            w.side.untrace(o);
            if n(2) % 2 == 0 {
                w.gc.as_mut().unwrap().trace(o);
            } else {
                w.gc.as_mut().unwrap().maybe_trace(o);
            }
            w.handles.push(o);
            w.model.push(MObj { val, own: Own::Managed });
        }
        "adopt-immediate" => {
            // maybe_trace of an immediate value must be a no-op
            if let Some(gc) = w.gc.as_mut() {
                gc.maybe_trace(Object::int(n(1) as isize));
                gc.maybe_trace(Object::null());
                gc.maybe_trace(Object::bool(true));
            }
        }
        "drop" => {
            if let Some(gc) = w.gc.take() {
                drop(gc);
                sim::gc_drop_done();
                for m in w.model.iter_mut() {
                    if m.own == Own::Managed {
                        m.own = Own::Released;
                    }
                }
                w.roots.clear();
            }
        }
        _ => {}
    }
}

pub struct GcRun {
    pub findings: Vec<Finding>,
    pub collections: u64,
    pub freed: u64,
    pub shapes: Vec<u64>,
    pub objects: usize,
    pub log: u64,
}

pub fn run_ops(ops: &[Value]) -> GcRun {
    // context: hooks record into this thread's Ctx
    CTX.with(|c| {
        let mut ctx = c.borrow_mut();
        *ctx = sim::Ctx::new();
        ctx.active = false;
        ctx.eval_id = 1;
    });
    let mut w = World::new();
    let mut log = Fold::new();
    for op in ops {
        apply(&mut w, op);
        let name = op[0].as_str().unwrap_or("?").to_string();
        w.check(&name);
        log.str(&name);
        log.u64(w.live().len() as u64);
        if !w.findings.is_empty() {
            break;
        }
    }
    // end of scenario: drop the collector, the caller releases what it owns, nothing may remain
    if w.findings.is_empty() {
        apply(&mut w, &json!(["drop"]));
        w.check("drop");
    }
    if w.findings.is_empty() {
        let _g = sim::enter_harness();
        for i in 0..w.model.len() {
            if w.model[i].own == Own::Caller {
                w.handles[i].free();
                w.model[i].own = Own::Released;
            }
        }
    }
    if let Some(gc) = w.gc.take() {
        drop(gc);
        sim::gc_drop_done();
    }
    let hook_findings: Vec<Finding> = CTX.with(|c| std::mem::take(&mut c.borrow_mut().findings));
    let mut findings = w.findings.clone();
    findings.extend(hook_findings);
    {
        let mut sh = shadow::lock();
        let leaked = sh.reset();
        if leaked > 0 && findings.is_empty() {
            findings.push(Finding {
                class: "unreachable-retained".into(),
                key: "end".into(),
                detail: format!("{} object(s) still allocated after the collector was dropped and the caller released its objects", leaked),
            });
        }
    }
    crate::alloc::flush_parked();
    log.u64(findings.len() as u64);
    GcRun {
        findings,
        collections: w.stats_collections,
        freed: w.stats_freed,
        shapes: w.shapes.iter().cloned().collect(),
        objects: w.model.len(),
        log: log.0,
    }
}

fn gen_ops(rng: &mut Rng) -> Vec<Value> {
    gen_ops_opt(rng, true)
}

fn gen_ops_opt(rng: &mut Rng, allow_bulk: bool) -> Vec<Value> {
    let len = 4 + rng.usize(57);
    let max_objects = 4 + rng.usize(13);
    let mut ops: Vec<Value> = Vec::new();
    let mut objects = 0usize;
    // one sequence in eight starts with a large population (crosses the mark bitmap's word
    // boundaries at 64, 128, ... managed objects), a third of it rooted
    if rng.chance(1, 8) && allow_bulk {
        let n = 50 + rng.usize(160);
        for i in 0..n {
            match rng.below(3) {
                0 => ops.push(json!(["float", i as f64 / 4.0])),
                1 => ops.push(json!(["str", "bulk"])),
                _ => ops.push(json!(["arr", [rng.below(1 << 20), Value::Null]])),
            }
            if rng.chance(1, 3) {
                ops.push(json!(["root", rng.below(1 << 20)]));
            }
        }
    }
    // swarm weights
    let w_alloc = 2 + rng.below(6) as u32;
    let w_link = rng.below(6) as u32;
    let w_unlink = rng.below(3) as u32;
    let w_root = 1 + rng.below(5) as u32;
    let w_unroot = rng.below(4) as u32;
    let w_collect = 1 + rng.below(5) as u32;
    let w_untrace = rng.below(3) as u32;
    let w_release = rng.below(3) as u32;
    let w_adopt = rng.below(2) as u32;
    let w_drop = if rng.chance(1, 10) { 1 } else { 0 };
    for _ in 0..len {
        let w = [
            if objects < max_objects { w_alloc } else { 0 },
            w_link,
            w_unlink,
            w_root,
            w_unroot,
            w_collect,
            w_untrace,
            w_release,
            if objects < max_objects { w_adopt } else { 0 },
            w_drop,
        ];
        let op = match rng.weighted(&w) {
            0 => {
                objects += 1;
                match rng.below(4) {
                    0 => json!(["float", (rng.below(1000) as f64) / 8.0]),
                    1 => json!(["str", *rng.pick(&["", "a", "hallo", "é日"])]),
                    _ => {
                        let n = rng.usize(4);
                        let els: Vec<Value> = (0..n)
                            .map(|_| if rng.chance(2, 3) { json!(rng.below(64)) } else { Value::Null })
                            .collect();
                        json!(["arr", els])
                    }
                }
            }
            1 => json!(["link", rng.below(64), rng.below(8), rng.below(64)]),
            2 => json!(["unlink", rng.below(64), rng.below(8)]),
            3 => json!(["root", rng.below(64)]),
            4 => json!(["unroot", rng.below(64)]),
            5 => {
                let slices = 1 + rng.usize(4);
                let pat: Vec<Value> = (0..slices)
                    .map(|_| {
                        let k = rng.usize(4);
                        Value::Array(
                            (0..k)
                                .map(|_| if rng.chance(1, 6) { json!(u64::MAX) } else { json!(rng.below(64)) })
                                .collect(),
                        )
                    })
                    .collect();
                let mut v = vec![json!(["collect", pat.clone()])];
                if rng.chance(1, 5) {
                    // twice in a row
                    v.push(json!(["collect", pat]));
                }
                ops.extend(v);
                continue;
            }
            6 => json!(["untrace", rng.below(64)]),
            7 => json!(["release", rng.below(64)]),
            8 => {
                objects += 1;
                if rng.chance(1, 4) {
                    json!(["adopt-immediate", rng.below(100)])
                } else {
                    json!(["adopt", rng.below(3), rng.below(2)])
                }
            }
            _ => json!(["drop"]),
        };
        ops.push(op);
    }
    ops
}

/// small universes only (Miri adjunct: two orders of magnitude slower than native)
pub fn gen_ops_pub(rng: &mut Rng) -> Vec<Value> {
    gen_ops_opt(rng, false)
}

pub fn spec_of(ops: &[Value]) -> Value {
    json!({"engine": "gc-sim", "kind": "gc-ops", "ops": ops})
}

pub fn scenario(acc: &mut Acc, seed: u64, index: u64, _tier: Tier) {
    let s = mix(seed, TAG, index);
    let mut rng = Rng::new(s);
    let ops = gen_ops(&mut rng);
    acc.begin(&spec_of(&ops));
    sim::marker("GCSIM+");
    let r = run_ops(&ops);
    sim::marker("GCSIM-");
    acc.count("gc_sequences", 1);
    acc.count("gc_operations", ops.len() as u64);
    acc.count("gc_collections", r.collections);
    acc.count("gc_objects_reclaimed_by_collections", r.freed);
    acc.count("gc_objects", r.objects as u64);
    for op in &ops {
        acc.count(&format!("gc_op:{}", op[0].as_str().unwrap_or("?")), 1);
    }
    for sh in &r.shapes {
        acc.distinct("gc_reachable_shapes_at_collection", *sh);
    }
    if r.collections > 0 && r.objects > 1 {
        acc.distinct("nontrivial_cases", r.log ^ s);
    }
    acc.sample(json!({"gc_ops": ops}));
    for f in &r.findings {
        if f.class.starts_with("harness:") {
            acc.count("harness_findings", 1);
            continue;
        }
        let mut sp = spec_of(&ops);
        sp["expect"] = json!({"class": f.class, "key": f.key});
        acc.violation(Violation {
            property: PROPERTY.into(),
            class: f.class.clone(),
            key: f.key.clone(),
            detail: f.detail.clone(),
            spec: sp,
            seed,
            index,
        });
    }
    acc.log(index, r.log);
}

pub fn replay(sp: &Value, _trace: bool) -> Vec<Finding> {
    let ops: Vec<Value> = sp["ops"].as_array().cloned().unwrap_or_default();
    run_ops(&ops).findings
}

/// Drop operations one at a time while the same violation persists (every op is meaningful on any
/// world, so no re-validation is needed).
pub fn shrink(sp: &Value, class: &str, key: &str) -> Value {
    let mut ops: Vec<Value> = sp["ops"].as_array().cloned().unwrap_or_default();
    let same = |ops: &[Value]| run_ops(ops).findings.iter().any(|f| f.class == class && f.key == key);
    let mut changed = true;
    let mut tries = 0;
    while changed && tries < 3000 {
        changed = false;
        let mut i = 0;
        while i < ops.len() {
            tries += 1;
            let mut c = ops.clone();
            c.remove(i);
            if same(&c) {
                ops = c;
                changed = true;
            } else {
                i += 1;
            }
        }
    }
    let mut out = sp.clone();
    out["ops"] = Value::Array(ops);
    out
}
