mod acc;
mod alloc;
mod checks;
mod directed;
mod engine_crash;
mod engine_gc;
mod engine_heap;
mod engine_purity;
mod engine_session;
mod gen_program;
mod miri_adjunct;
mod orch;
mod replay;
mod rng;
mod runner;
mod sched;
mod shadow;
mod sim;
mod spec;

#[cfg(not(miri))]
#[global_allocator]
static GLOBAL: alloc::SimAlloc = alloc::SimAlloc;

fn main() {
    // everything runs on one explicitly sized stack: native recursion in the parser, in mark() and in
    // Display must stay far from the limit in the unoptimised build too (DESIGN.md 4.1)
    let h = std::thread::Builder::new().stack_size(256 << 20).spawn(real_main).unwrap();
    let code = h.join().unwrap_or(2);
    std::process::exit(code);
}

fn real_main() -> i32 {
    let args: Vec<String> = std::env::args().collect();
    runner::install_panic_hook();
    let bare = args.get(1).map(|s| s == "miri").unwrap_or(false) && args.get(3).map(|s| s == "threads").unwrap_or(false);
    if !bare {
        sim::install_hooks();
    }
    let code = match args.get(1).map(|s| s.as_str()) {
        Some("check") => {
            let tier = acc::Tier::parse(args.get(3).map(|s| s.as_str()).unwrap_or("quick"));
            match args.get(2).map(|s| s.as_str()) {
                Some("C04") => checks::check_c04(tier),
                Some("C03") => checks::check_c03(tier),
                Some("C17") => checks::check_c17(tier),
                Some("C16") => checks::check_c16(tier),
                _ => {
                    eprintln!("unknown property");
                    2
                }
            }
        }
        Some("worker") => {
            let seed: u64 = args[3].parse().unwrap();
            let tier = acc::Tier::parse(&args[4]);
            let solo = args.get(6).map(|s| s == "solo").unwrap_or(false);
            orch::worker_main(&args[2], seed, tier, &args[5], solo)
        }
        Some("miri") => {
            let seed: u64 = args[2].parse().unwrap();
            let n: u64 = args.get(4).map(|s| s.parse().unwrap()).unwrap_or(8);
            miri_adjunct::main(seed, &args[3], n)
        }
        Some("fresh") => engine_purity::fresh_main(),
        Some("digests") => {
            let seed: u64 = args[2].parse().unwrap();
            let tier = acc::Tier::parse(&args[3]);
            engine_purity::digests_main(seed, tier, args[4].parse().unwrap(), args[5].parse().unwrap())
        }
        Some("one-of-batch") => {
            let seed: u64 = args[2].parse().unwrap();
            let tier = acc::Tier::parse(&args[3]);
            let i: usize = args[4].parse().unwrap();
            let b = engine_purity::batch(seed, tier);
            println!("{}", serde_json::json!({"index": i, "digest": engine_purity::plain_digest(&b.get(i))}));
            0
        }
        Some("replay") => replay::replay_main(&args[2], args.get(3).is_some()),
        Some("replay-inner") => replay::replay_inner(&args[2]),
        Some("shrink") => replay::shrink_main(&args[2]),
        Some("gen") => {
            let seed: u64 = args[2].parse().unwrap();
            let n: u64 = args.get(3).map(|s| s.parse().unwrap()).unwrap_or(1);
            let fail: u32 = args.get(4).map(|s| s.parse().unwrap()).unwrap_or(0);
            for i in 0..n {
                let p = gen_program::generate(rng::mix(seed, 1, i), true, fail);
                println!("// ---- program {} planted={:?}\n{}", i, p.planted, p.src);
                let r = runner::run_eval(&p.src, &runner::Plan::plain(), 1, true);
                println!("// => {} steps={} inj={:?} findings={:?}", r.digest(), r.steps, r.injected, r.findings);
            }
            0
        }
        Some("eval") => {
            let src = &args[2];
            let mut plan = runner::Plan::plain();
            plan.exact = true;
            plan.track_survivors = true;
            plan.trace = args.get(3).is_some();
            let r = runner::run_eval(src, &plan, 1, true);
            for l in &r.trace_lines {
                println!("{}", l);
            }
            println!("{} steps={} inj={:?}", r.digest(), r.steps, r.injected);
            for f in &r.findings {
                println!("FINDING {} [{}] {}", f.class, f.key, f.detail);
            }
            0
        }
        _ => {
            eprintln!("usage: nlsim check <ID> quick|thorough | replay <file> | ...");
            2
        }
    };
    code
}
