//! Directed programs: hand-written cases run by heap-sim and crash-sim before the generated ones.
//! They exercise shapes the generator excludes on purpose (DESIGN.md 4.3, starred items) and the
//! repository's own example programs.

pub fn builtin() -> Vec<(&'static str, String)> {
    let v: Vec<(&str, &str)> = vec![
        ("last-value-across-procedure-call", "functie proc() { stel t = [1.5] }; string(5); stel x = proc();"),
        ("last-value-across-empty-function", "functie leeg() { }; [string(7), 2.5]; leeg(); stel y = leeg();"),
        ("procedure-in-loop", "functie p(a) { stel l = [a, \"s\"] }; stel i = 0; zolang i < 4 { i = i + 1; float(i); p(string(i)); }; [i]"),
        ("function-returns-string", "functie f() { \"abc\" } f()"),
        ("string-assigned-into-itself", "stel s = string(12345); s[0] = s; s"),
        ("string-assigned-into-itself-long", "stel s = string(1234567890123456); stel i = 0; zolang i < 3 { s[i] = s; i = i + 1; }; s"),
        ("string-element-from-alias", "stel s = string(987654321); stel t = s; t[2] = s; [s, t]"),
        ("cyclic-array-through-function", "stel a = [1, 2]; functie f(x) { x[0] = x; x }; stel b = f(a); functie g() { [b, a] }; g(); g()"),
        ("mutual-cycle-dropped", "functie mk() { stel a = [0, \"x\"]; stel b = [a, 1.5]; a[0] = b; 0 }; mk(); mk(); functie h() { 1 }; h()"),
        ("result-shares-constant", "functie f() { [\"lit\", 2.5] }; stel r = f(); f(); r"),
        ("pending-operands-at-collection", "functie f(x) { [x, \"t\"] }; [\"a\", f(1.5), [f(\"b\"), 2.25], f(f(3))]"),
        ("deep-recursion-with-heap", "functie r(n) { als n < 1 { antwoord [n]; }; [n, r(n - 1), string(n)] }; r(40)"),
        ("loop-garbage", "functie id(x) { x }; stel i = 0; stel keep = []; zolang i < 50 { i = i + 1; stel t = [string(i), float(i)]; id(t); als (i % 10) == 0 { keep = [keep, t]; }; }; keep"),
        ("print-and-return", "functie f(a, b) { print(\"{} en {}\", a, b); [a, b] }; f(\"x\", [1.5, \"y\"])"),
        ("error-inside-nested-calls", "functie f(x) { [x, \"k\", 1 + ja] }; functie g() { stel l = [\"p\", 2.5]; f(l) }; [\"q\", g()]"),
        ("error-after-collection", "functie f() { \"tmp\" }; stel a = [f(), f()]; stel b = string(5); [1][3]"),
        ("array-aliasing", "stel a = [\"x\", 1.5]; stel b = a; functie f() { b[0] = string(7); a }; f(); [a, b, f()]"),
        // `stop` / `volgende` inside a function whose definition sits in a loop leave the loop *and* the
        // call (the frame stays open until the program ends): odd, but it has a defined outcome here
        ("stop-inside-function-inside-loop", "stel i = 0; zolang i < 3 { i = i + 1; functie f() { stel t = [string(i)]; stop; }; f(); }; [\"klaar\", i]"),
        ("volgende-inside-function-inside-loop", "stel i = 0; stel n = 0; zolang i < 3 { i = i + 1; functie g(a) { als a == 2 { volgende; }; [a, 2.5] }; g(i); n = n + 1; }; [string(n), i]"),
        ("stop-inside-function-then-heap-result", "stel i = 0; zolang i < 1 { i = i + 1; functie f() { stop } f() } \"klaar\""),
        ("shadowed-heap-locals", "functie f(p) { stel a = [p]; { stel b = [a, \"s\"]; { stel c = [b, 2.5]; functie g() { 0 }; g(); c } } }; f(\"z\")"),
    ];
    let mut out: Vec<(&'static str, String)> = v.into_iter().map(|(n, s)| (n, s.to_string())).collect();
    // size- and depth-dependent shapes: thresholds in the collector or in root scanning (64/128/256
    // managed objects, tens of frames, hundreds of pending operands, long arrays and strings)
    out.push((
        "deep-frames-with-heap-locals",
        "functie d(n, keep) { stel l = [n, string(n)]; als n < 1 { antwoord [l]; }; stel r = d(n - 1, l); [l, r, keep] }; d(150, \"top\")".to_string(),
    ));
    out.push((
        "many-live-objects",
        "functie id(x) { x }; stel i = 0; stel keep = []; zolang i < 330 { i = i + 1; stel t = [string(i), float(i)]; id(t); keep = [keep, t]; }; functie tel(k) { lengte(k) }; [tel(keep), keep]".to_string(),
    ));
    let wide: Vec<String> = (0..130).map(|i| if i % 3 == 0 { format!("string({})", i) } else if i % 3 == 1 { format!("float({})", i) } else { format!("[{}]", i) }).collect();
    out.push(("wide-array-of-fresh-values", format!("functie f() {{ 0 }}; stel w = [{}]; f(); f(); w", wide.join(", "))));
    // thousands of managed objects at one collection (thresholds at 1024 / 2048 / 4096 objects), cheap in
    // steps: one literal with fresh elements, collections while it is alive, a value made afterwards
    for n in [1500usize, 3500] {
        let wide: Vec<String> = (0..n).map(|i| if i % 2 == 0 { format!("string({})", i) } else { format!("float({})", i) }).collect();
        out.push((
            if n == 1500 { "array-of-1500-fresh-values" } else { "array-of-3500-fresh-values" },
            format!("functie f() {{ 0 }}; stel w = [{}]; f(); stel laat = [string(7), 2.5 + 1.0]; f(); f(); [laat, w[0], w[{}], lengte(w)]", wide.join(", "), n - 1),
        ));
    }
    // more than 65 536 bytes of straight-line code (no jump crosses it) with heap literals in front
    out.push((
        "very-long-straight-line-program",
        format!("stel s = \"lit\"; stel f = 2.5; {}[s, f, string(3)]", "1; ".repeat(23_000)),
    ));
    let pending: Vec<String> = (0..220).map(|i| format!("g({})", i)).collect();
    out.push(("hundreds-of-pending-operands", format!("functie g(n) {{ string(n) }}; [{}]", pending.join(", "))));
    let long: String = (0..300).map(|i| char::from(b'a' + (i % 26) as u8)).collect();
    out.push((
        "long-string-changed-in-place",
        format!("functie f() {{ 1 }}; stel s = \"{}\"; stel i = 0; zolang i < 40 {{ s[i * 7] = \"é\"; f(); i = i + 1; }}; [s, s[0], s[299], lengte(s)]", long),
    ));
    out
}

/// builtin cases + every examples/*.nl of the repository (sorted by name)
pub fn all() -> Vec<(String, String)> {
    let mut v: Vec<(String, String)> = builtin().into_iter().map(|(n, s)| (n.to_string(), s)).collect();
    let dir = std::env::var("NLSIM_EXAMPLES").unwrap_or_else(|_| "/repo/examples".to_string());
    if let Ok(rd) = std::fs::read_dir(&dir) {
        let mut files: Vec<std::path::PathBuf> = rd
            .filter_map(|e| e.ok().map(|e| e.path()))
            .filter(|p| p.extension().map(|x| x == "nl").unwrap_or(false))
            .collect();
        files.sort();
        for f in files {
            if let Ok(s) = std::fs::read_to_string(&f) {
                let name = f.file_name().unwrap().to_string_lossy().to_string();
                v.push((format!("example:{}", name), s));
            }
        }
    }
    v
}
