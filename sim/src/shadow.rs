//! Shadow heap: a ledger of every heap box the interpreter allocates, keyed by address, named by
//! allocation sequence number. Released boxes are quarantined (kept allocated, emptied) until the
//! scenario ends, so addresses are never reused inside a scenario and every stale pointer stays
//! detectable and memory-safe to observe.

use std::collections::BTreeMap;
use std::sync::atomic::{AtomicBool, Ordering};
use std::sync::Mutex;

#[derive(Clone, Debug)]
pub struct Entry {
    pub id: u64,
    pub kind: u8,
    pub alive: bool,
    pub owner: u64,
    pub quarantined: bool,
    pub alloc_step: u64,
}

pub struct Shadow {
    pub map: BTreeMap<usize, Entry>,
    pub next_id: u64,
    pub alive: usize,
    pub allocs: u64,
    pub releases: u64,
}

pub static SHADOW: Mutex<Shadow> = Mutex::new(Shadow {
    map: BTreeMap::new(),
    next_id: 1,
    alive: 0,
    allocs: 0,
    releases: 0,
});

/// When false (Miri adjunct) released boxes go straight back to the allocator.
pub static QUARANTINE: AtomicBool = AtomicBool::new(true);

pub const KIND_FLOAT: u8 = 4;
pub const KIND_STRING: u8 = 5;
pub const KIND_ARRAY: u8 = 6;

pub fn kind_name(k: u8) -> &'static str {
    match k {
        KIND_FLOAT => "float",
        KIND_STRING => "string",
        KIND_ARRAY => "array",
        _ => "?",
    }
}

pub enum ReleaseCheck {
    Ok,
    Double(u64),
    Unknown,
}

pub fn lock() -> std::sync::MutexGuard<'static, Shadow> {
    match SHADOW.lock() {
        Ok(g) => g,
        Err(p) => p.into_inner(),
    }
}

impl Shadow {
    /// Registers a fresh box. Returns Err(id of the live entry) if the address is already live.
    pub fn on_alloc(&mut self, addr: usize, kind: u8, owner: u64, step: u64) -> Result<u64, u64> {
        if let Some(e) = self.map.get(&addr) {
            if e.alive {
                return Err(e.id);
            }
        }
        let id = self.next_id;
        self.next_id += 1;
        self.allocs += 1;
        self.alive += 1;
        self.map.insert(
            addr,
            Entry {
                id,
                kind,
                alive: true,
                owner,
                quarantined: false,
                alloc_step: step,
            },
        );
        Ok(id)
    }

    pub fn on_pre_destroy(&mut self, addr: usize) -> ReleaseCheck {
        match self.map.get_mut(&addr) {
            None => ReleaseCheck::Unknown,
            Some(e) if !e.alive => ReleaseCheck::Double(e.id),
            Some(e) => {
                e.alive = false;
                self.alive -= 1;
                self.releases += 1;
                ReleaseCheck::Ok
            }
        }
    }

    /// Returns whether the box is to be kept (quarantined).
    pub fn on_post_destroy(&mut self, addr: usize) -> bool {
        let q = QUARANTINE.load(Ordering::Relaxed);
        if q {
            if let Some(e) = self.map.get_mut(&addr) {
                e.quarantined = true;
            }
        } else {
            // address may be reused from now on
            self.map.remove(&addr);
        }
        q
    }

    pub fn get(&self, addr: usize) -> Option<&Entry> {
        self.map.get(&addr)
    }

    pub fn is_alive(&self, addr: usize) -> bool {
        matches!(self.map.get(&addr), Some(e) if e.alive)
    }

    pub fn id_of(&self, addr: usize) -> u64 {
        self.map.get(&addr).map(|e| e.id).unwrap_or(0)
    }

    pub fn alive_addrs(&self) -> Vec<usize> {
        let mut v: Vec<(u64, usize)> = self
            .map
            .iter()
            .filter(|(_, e)| e.alive)
            .map(|(a, e)| (e.id, *a))
            .collect();
        v.sort();
        v.into_iter().map(|(_, a)| a).collect()
    }

    /// Alive entries owned by the given evaluation, in allocation order (never address order)
    pub fn alive_of(&self, owner: u64) -> Vec<usize> {
        let mut v: Vec<(u64, usize)> = self
            .map
            .iter()
            .filter(|(_, e)| e.alive && e.owner == owner)
            .map(|(a, e)| (e.id, *a))
            .collect();
        v.sort();
        v.into_iter().map(|(_, a)| a).collect()
    }

    /// Alive run-time allocations (not literals created while compiling) of the given evaluation
    pub fn alive_runtime_of(&self, owner: u64) -> usize {
        self.map
            .values()
            .filter(|e| e.alive && e.owner == owner && e.alloc_step > 0)
            .count()
    }

    pub fn describe(&self, addr: usize) -> String {
        match self.map.get(&addr) {
            Some(e) => format!(
                "{}#{}{}",
                kind_name(e.kind),
                e.id,
                if e.alive { "" } else { "(released)" }
            ),
            None => "unknown-object".to_string(),
        }
    }

    /// Ends a scenario: quarantined boxes go back to the allocator, the table is emptied.
    /// Returns how many entries were still alive (they are forgotten, i.e. leaked for real).
    pub fn reset(&mut self) -> usize {
        let leaked = self.alive;
        for (addr, e) in self.map.iter() {
            if !e.alive && e.quarantined {
                unsafe { nederlang::verif::release_quarantined(*addr, e.kind) };
            }
        }
        self.map.clear();
        self.alive = 0;
        self.next_id = 1;
        leaked
    }

    /// Forgets (and releases the quarantined boxes of) one evaluation only; used when several
    /// evaluations share the table (sim-threads).
    pub fn reset_owner(&mut self, owner: u64) -> usize {
        let mut leaked = 0;
        let addrs: Vec<usize> = self
            .map
            .iter()
            .filter(|(_, e)| e.owner == owner)
            .map(|(a, _)| *a)
            .collect();
        for addr in addrs {
            let e = self.map.remove(&addr).unwrap();
            if e.alive {
                leaked += 1;
                self.alive -= 1;
            } else if e.quarantined {
                unsafe { nederlang::verif::release_quarantined(addr, e.kind) };
            }
        }
        leaked
    }
}
