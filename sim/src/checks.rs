//! The registered checks: `nlsim check <ID> <tier>`.

use crate::acc::{Acc, Tier};
use crate::orch::{self, BatchResult};
use serde_json::{json, Value};
use std::time::Instant;

fn counters_json(acc: &Acc) -> Value {
    json!(acc.counters)
}

fn faults_json(acc: &Acc) -> Value {
    let mut m = serde_json::Map::new();
    for (k, v) in &acc.counters {
        if let Some(f) = k.strip_prefix("fault_") {
            m.insert(f.to_string(), json!(v));
        }
    }
    Value::Object(m)
}

fn probes_json(acc: &Acc) -> Value {
    let mut m = serde_json::Map::new();
    for (k, v) in &acc.counters {
        if let Some(f) = k.strip_prefix("probe_") {
            m.insert(f.to_string(), json!(v));
        }
    }
    Value::Object(m)
}

fn distinct_json(acc: &Acc) -> Value {
    let mut m = serde_json::Map::new();
    for (k, v) in &acc.distinct {
        m.insert(k.clone(), json!(v.len()));
    }
    Value::Object(m)
}

/// Determinism self-test: the first `n` scenarios again, in one process; per-scenario log hashes
/// must equal those of the 16-process batch.
fn determinism_selftest(e: &orch::EngineDef, seed: u64, tier: Tier, batch: &BatchResult, n: u64) -> Result<u64, String> {
    let n = n.min(batch.scenarios);
    let again = orch::run_engine(e, seed, tier, n, 1);
    if !again.harness_errors.is_empty() {
        return Err(format!("determinism self-test could not run: {}", again.harness_errors.join("; ")));
    }
    let base: std::collections::BTreeMap<u64, u64> = batch.acc.log_hashes.iter().cloned().collect();
    let mut compared = 0;
    for (i, h) in &again.acc.log_hashes {
        match base.get(i) {
            Some(h0) if h0 == h => compared += 1,
            Some(h0) => {
                return Err(format!(
                    "determinism self-test: scenario {} of {} has log hash {:x} in the batch and {:x} when re-run in one process",
                    i, e.name, h0, h
                ))
            }
            None => {}
        }
    }
    Ok(compared)
}

pub fn check_c04(tier: Tier) -> i32 {
    let t0 = Instant::now();
    let seed = orch::seed_from_env();
    let e = orch::engine("crash-sim").unwrap();
    let count = (e.scenarios)(tier);
    println!("C04 crash-sim: seed {} tier {} scenarios {}", seed, tier.name(), count);
    let batch = orch::run_engine(&e, seed, tier, count, orch::WORKERS);
    let mut harness_errors = batch.harness_errors.clone();
    let selftest = if batch.violations.is_empty() && harness_errors.is_empty() {
        match determinism_selftest(&e, seed, tier, &batch, 32) {
            Ok(n) => n,
            Err(m) => {
                harness_errors.push(m);
                0
            }
        }
    } else {
        0
    };
    let violations = batch.violations.clone();
    let nviol = violations.len();
    let verdict = orch::conclude("C04", violations, &harness_errors);
    let acc = &batch.acc;
    let wall = t0.elapsed().as_secs_f64();
    let runs = acc.counters.get("runs").cloned().unwrap_or(0);
    let nontrivial = acc.distinct.get("nontrivial_cases").map(|s| s.len()).unwrap_or(0);
    let exhaustive_programs = acc.counters.get("programs").cloned().unwrap_or(0)
        - acc.counters.get("programs_sampled_crash_points").cloned().unwrap_or(0)
        - acc.counters.get("discarded_over_budget").cloned().unwrap_or(0);
    let ev = json!({
        "property_id": "C04",
        "tier": tier.name(),
        "seed": seed,
        "level": "fault_enumeration",
        "coverage": {
            "evaluations": runs,
            "distinct_nontrivial": nontrivial,
            "rule": "seeded type-directed generator of allocating programs (with and without a planted natural failure); for every program the fault-free run of N steps is repeated with an injected error return at instruction k for EVERY k in [0,N) (programs over 400 steps: first 64, last 64, 128 seeded points), each under the shipped collection schedule and under one buggified schedule (extra collections at seeded instruction boundaries or at every boundary); after each run the shadow-heap ledger is audited (nothing left, nothing released twice, result graph valid and releasable once) and after every collection alive == reachable(true roots). A case = (program, crash point, schedule); it is non-trivial when at least one heap object allocated at run time (not a literal) was alive at the crash point; distinct = distinct hash of (program text, k, schedule).",
            "samples": acc.samples,
            "exhaustive": false,
            "exhaustive_note": format!("the crash-point dimension is enumerated completely for {} of {} programs; programs and collection schedules are sampled", exhaustive_programs, acc.counters.get("programs").cloned().unwrap_or(0)),
            "programs": acc.counters.get("programs"),
            "simulated_steps": acc.counters.get("sim_steps"),
            "runs_per_hour": (runs as f64 / wall * 3600.0) as u64,
            "seeds_per_hour": (acc.counters.get("programs").cloned().unwrap_or(0) as f64 / wall * 3600.0) as u64,
            "faults_fired": faults_json(acc),
            "probes": probes_json(acc),
            "distinct_states": distinct_json(acc),
            "distinct_state_measure": "crash_states = distinct (opcode at crash, frame depth<=6, pending-operand bucket, live-object bucket, collected-before flag)",
            "counters": counters_json(acc),
            "determinism_selftest_scenarios_compared": selftest,
            "components": orch::components(),
            "candidate_violations": nviol,
            "known_findings_matched": verdict.known,
        },
        "assumptions": [
            "the step seam reports every instruction boundary; an injected failure takes the same exit path as a run-time error (checked: the error returned is the injected one)",
            "released boxes are quarantined by the hooks, so a stale access is observed, not executed as undefined behaviour",
            "sampling: programs come from the generator of DESIGN.md section 4.1; behaviours listed in section 4.3 are excluded"
        ],
        "wall_s": wall,
        "violations": verdict.reported,
    });
    orch::write_evidence("C04", &ev);
    println!(
        "C04: {} programs, {} runs, {} simulated steps, {} crash points fired, {} distinct non-trivial cases, {} violation(s), {} known, {:.1}s",
        acc.counters.get("programs").cloned().unwrap_or(0),
        runs,
        acc.counters.get("sim_steps").cloned().unwrap_or(0),
        acc.counters.get("fault_crash_fired").cloned().unwrap_or(0),
        nontrivial,
        verdict.reported,
        verdict.known,
        wall
    );
    verdict.exit
}

fn get(acc: &Acc, k: &str) -> u64 {
    acc.counters.get(k).cloned().unwrap_or(0)
}

pub fn check_c03(tier: Tier) -> i32 {
    let t0 = Instant::now();
    let seed = orch::seed_from_env();
    let heap = orch::engine("heap-sim").unwrap();
    let gc = orch::engine("gc-sim").unwrap();
    let (nh, ng) = ((heap.scenarios)(tier), (gc.scenarios)(tier));
    println!("C03 heap-sim + gc-sim: seed {} tier {} scenarios {} + {}", seed, tier.name(), nh, ng);
    let bh = orch::run_engine(&heap, seed, tier, nh, orch::WORKERS);
    let bg = orch::run_engine(&gc, seed, tier, ng, orch::WORKERS);
    let mut harness_errors = bh.harness_errors.clone();
    harness_errors.extend(bg.harness_errors.clone());
    let mut selftest = 0;
    if bh.violations.is_empty() && bg.violations.is_empty() && harness_errors.is_empty() {
        for (e, b, n) in [(&heap, &bh, 32u64), (&gc, &bg, 256u64)] {
            match determinism_selftest(e, seed, tier, b, n) {
                Ok(n) => selftest += n,
                Err(m) => harness_errors.push(m),
            }
        }
    }
    let mut violations = bh.violations.clone();
    violations.extend(bg.violations.clone());
    let nviol = violations.len();
    let verdict = orch::conclude("C03", violations, &harness_errors);
    let wall = t0.elapsed().as_secs_f64();
    let (ah, ag) = (&bh.acc, &bg.acc);
    let runs = get(ah, "runs") + get(ag, "gc_sequences");
    let nontrivial = ah.distinct.get("nontrivial_cases").map(|s| s.len()).unwrap_or(0)
        + ag.distinct.get("nontrivial_cases").map(|s| s.len()).unwrap_or(0);
    let mut samples = ah.samples.clone();
    samples.truncate(3);
    samples.extend(ag.samples.iter().take(2).cloned());
    let mut warnings: Vec<String> = Vec::new();
    for p in ["probe_collection_with_cyclic_array_live", "probe_collection_with_shared_object_live", "fault_extra_collection", "fault_allocator_realloc_moved", "collections_with_live_heap"] {
        if get(ah, p) == 0 {
            warnings.push(format!("probe {} stayed at zero", p));
        }
    }
    for w in &warnings {
        println!("WARNING: {}", w);
    }
    let ev = json!({
        "property_id": "C03",
        "tier": tier.name(),
        "seed": seed,
        "level": "exploration",
        "coverage": {
            "evaluations": runs,
            "distinct_nontrivial": nontrivial,
            "rule": "(a) heap-sim: seeded generator of heap-heavy programs (floats, strings, nested/aliased/cyclic arrays, functions, recursion, calls nested in array literals); each program is run under the shipped collection schedule with the plain allocator and under 3-5 seeded variants of (collection schedule: shipped / extra collections at seeded instruction boundaries / a collection at EVERY instruction boundary) x (allocator: plain / poison-and-park freed blocks / every realloc moves); monitored: every dereference hits a live shadow entry, no double release, after every collection reachable(true roots read from the VM) is a subset of alive and every survivor is unchanged; afterwards the outcome digest must equal the shipped+plain one. A run is non-trivial when at least one collection ran while a heap object was reachable; distinct = distinct event-log hash. (b) gc-sim: seeded operation sequences (<=60 ops, <=16 objects: allocate float/string/array, link/unlink element, add/drop root, collect with the roots split into 1-4 slices with duplicates and immediates, hand over to caller (untrace), caller releases, adopt an object made by another collector, drop the collector) against a reachability model; after every operation shadow alive set == model alive set exactly, managed list == model managed set, values intact. Non-trivial: at least one collection with more than one object.",
            "samples": samples,
            "exhaustive": false,
            "programs": get(ah, "programs"),
            "heap_sim_runs": get(ah, "runs"),
            "gc_sim_sequences": get(ag, "gc_sequences"),
            "gc_sim_operations": get(ag, "gc_operations"),
            "simulated_steps": get(ah, "sim_steps"),
            "runs_per_hour": (runs as f64 / wall * 3600.0) as u64,
            "seeds_per_hour": ((get(ah, "programs") + get(ag, "gc_sequences")) as f64 / wall * 3600.0) as u64,
            "faults_fired": {"heap_sim": faults_json(ah), "gc_sim_operations": ag.counters.iter().filter(|(k, _)| k.starts_with("gc_op:")).map(|(k, v)| (k.clone(), json!(v))).collect::<serde_json::Map<String, Value>>()},
            "probes": probes_json(ah),
            "distinct_states": {"heap_sim": distinct_json(ah), "gc_sim": distinct_json(ag)},
            "distinct_state_measure": "heap_shapes_at_collection = canonical shape hash of the reachable graph (types, edges, sharing, cycles) x opcode preceding the collection; gc_reachable_shapes_at_collection = shape of the model's reachable graph x ownership x root count",
            "counters": {"heap_sim": counters_json(ah), "gc_sim": counters_json(ag)},
            "determinism_selftest_scenarios_compared": selftest,
            "components": orch::components(),
            "warnings": warnings,
            "candidate_violations": nviol,
            "known_findings_matched": verdict.known,
        },
        "assumptions": [
            "between two instructions everything live is on the operand stack, in the globals, in the constant pool or in the last-statement value (so an injected collection at an instruction boundary is legal); validated: the every-step schedule is silent on the repaired collector",
            "gc-sim never creates an edge from a caller-owned array to a collector-managed object: handing an array over transfers responsibility for what is stored into it afterwards",
            "the perturbing allocator modes cannot change the behaviour of code that never reads freed memory"
        ],
        "wall_s": wall,
        "violations": verdict.reported,
    });
    orch::write_evidence("C03", &ev);
    println!(
        "C03: {} programs / {} runs / {} steps (heap-sim), {} sequences / {} ops / {} collections (gc-sim), {} distinct non-trivial, {} violation(s), {} known, {:.1}s",
        get(ah, "programs"), get(ah, "runs"), get(ah, "sim_steps"), get(ag, "gc_sequences"), get(ag, "gc_operations"), get(ag, "gc_collections"),
        nontrivial, verdict.reported, verdict.known, wall
    );
    verdict.exit
}

pub fn check_c17(tier: Tier) -> i32 {
    let t0 = Instant::now();
    let seed = orch::seed_from_env();
    let e = orch::engine("session-sim").unwrap();
    let count = (e.scenarios)(tier);
    println!(
        "C17 session-sim: seed {} tier {} scenarios {} ({} directed, {} enumerated, rest random)",
        seed,
        tier.name(),
        count,
        crate::engine_session::DIRECTED,
        crate::engine_session::enumerated_count(tier)
    );
    let batch = orch::run_engine(&e, seed, tier, count, orch::WORKERS);
    let mut harness_errors = batch.harness_errors.clone();
    let selftest = if batch.violations.is_empty() && harness_errors.is_empty() {
        match determinism_selftest(&e, seed, tier, &batch, 48) {
            Ok(n) => n,
            Err(m) => {
                harness_errors.push(m);
                0
            }
        }
    } else {
        0
    };
    let violations = batch.violations.clone();
    let nviol = violations.len();
    let verdict = orch::conclude("C17", violations, &harness_errors);
    let acc = &batch.acc;
    let wall = t0.elapsed().as_secs_f64();
    let sessions = get(acc, "sessions");
    let nontrivial = acc.distinct.get("nontrivial_cases").map(|s| s.len()).unwrap_or(0);
    let mut warnings: Vec<String> = Vec::new();
    for p in ["probe_lines_run_after_a_failed_line", "probe_heap_value_on_later_line", "probe_injected_failure_inside_a_call", "probe_injected_failure_with_pending_operands", "fault_parse_failure", "fault_compile_failure", "fault_runtime_failure", "fault_injected_failure_fired"] {
        if get(acc, p) == 0 {
            warnings.push(format!("probe {} stayed at zero", p));
        }
    }
    for w in &warnings {
        println!("WARNING: {}", w);
    }
    let ev = json!({
        "property_id": "C17",
        "tier": tier.name(),
        "seed": seed,
        "level": "fault_enumeration",
        "coverage": {
            "evaluations": sessions,
            "distinct_nontrivial": nontrivial,
            "rule": format!("one retained Compiler+VM pair is driven line by line; every line is compared with eval (same build, fresh state) of the single program made of all completed earlier statements plus that line (value when the line ends in an expression statement, output, error kind and message); after a failing line the model keeps exactly the statements (or, for an injected failure, the top-level assignments counted by the step hook) that completed. Sessions: {} directed, COMPLETE enumeration of all sessions of length {} over an alphabet of {} line templates (declarations, assignments, reads, element assignments, loops, self-contained functions, parse / compile / run-time failures) each additionally with a failure injected at EVERY instruction k of every injectable line and once more with a collection at every instruction boundary, and seeded random sessions of 2-12 lines (10-50% failing lines, failures injected at seeded k, allocator modes plain/poison/move). A session is non-trivial when at least one line ran after a failed line; distinct = distinct event-log hash.", crate::engine_session::DIRECTED, if tier == Tier::Quick { "1-2" } else { "1-3" }, crate::engine_session::ALPHABET),
            "samples": acc.samples,
            "exhaustive": false,
            "exhaustive_note": "complete over the stated line alphabet and session length and over all injection points of those sessions; random sessions are sampled",
            "sessions": sessions,
            "lines": get(acc, "lines"),
            "simulated_steps": get(acc, "sim_steps"),
            "runs_per_hour": (sessions as f64 / wall * 3600.0) as u64,
            "seeds_per_hour": (count as f64 / wall * 3600.0) as u64,
            "faults_fired": faults_json(acc),
            "probes": probes_json(acc),
            "distinct_states": distinct_json(acc),
            "distinct_state_measure": "session skeletons (sequence of line kinds incl. failure kinds) x injected-failure state (frame depth, pending-operand bucket, top-level assignments completed)",
            "counters": counters_json(acc),
            "determinism_selftest_scenarios_compared": selftest,
            "components": orch::components(),
            "warnings": warnings,
            "candidate_violations": nviol,
            "known_findings_matched": verdict.known,
        },
        "assumptions": [
            "the reference is the same build's eval of the concatenated program: the check is blind to consistent wrongness by design and sensitive only to what retention and failure do",
            "lines that receive an injected failure consist of atomic-effect statements (DESIGN.md 4.2); lines with progressive effects are not injected (except the alphabet's loop template, whose partial state is modelled exactly)",
            "later lines never call functions defined on earlier lines and never reference a name declared by the uncompleted part of a failed line (the property's quantifier excludes both)"
        ],
        "wall_s": wall,
        "violations": verdict.reported,
    });
    orch::write_evidence("C17", &ev);
    println!(
        "C17: {} sessions, {} lines, {} steps, {} lines after a failed line, {} distinct non-trivial, {} violation(s), {} known, {:.1}s",
        sessions, get(acc, "lines"), get(acc, "sim_steps"), get(acc, "probe_lines_run_after_a_failed_line"), nontrivial, verdict.reported, verdict.known, wall
    );
    verdict.exit
}
