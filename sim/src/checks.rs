//! The registered checks: `nlsim check <ID> <tier>`.

use crate::acc::{Acc, Tier};
use crate::orch::{self, BatchResult};
use serde_json::{json, Value};
use std::time::Instant;

fn counters_json(acc: &Acc) -> Value {
    json!(acc.counters)
}

fn faults_json(acc: &Acc) -> Value {
    let mut m = serde_json::Map::new();
    for (k, v) in &acc.counters {
        if let Some(f) = k.strip_prefix("fault_") {
            m.insert(f.to_string(), json!(v));
        }
    }
    Value::Object(m)
}

fn probes_json(acc: &Acc) -> Value {
    let mut m = serde_json::Map::new();
    for (k, v) in &acc.counters {
        if let Some(f) = k.strip_prefix("probe_") {
            m.insert(f.to_string(), json!(v));
        }
    }
    Value::Object(m)
}

fn distinct_json(acc: &Acc) -> Value {
    let mut m = serde_json::Map::new();
    for (k, v) in &acc.distinct {
        m.insert(k.clone(), json!(v.len()));
    }
    Value::Object(m)
}

/// Determinism self-test: the first `n` scenarios again, in one process; per-scenario log hashes
/// must equal those of the 16-process batch.
fn determinism_selftest(e: &orch::EngineDef, seed: u64, tier: Tier, batch: &BatchResult, n: u64) -> Result<u64, String> {
    let n = n.min(batch.scenarios);
    let again = orch::run_engine(e, seed, tier, n, 1);
    if !again.harness_errors.is_empty() {
        return Err(format!("determinism self-test could not run: {}", again.harness_errors.join("; ")));
    }
    let base: std::collections::BTreeMap<u64, u64> = batch.acc.log_hashes.iter().cloned().collect();
    let mut compared = 0;
    for (i, h) in &again.acc.log_hashes {
        match base.get(i) {
            Some(h0) if h0 == h => compared += 1,
            Some(h0) => {
                return Err(format!(
                    "determinism self-test: scenario {} of {} has log hash {:x} in the batch and {:x} when re-run in one process",
                    i, e.name, h0, h
                ))
            }
            None => {}
        }
    }
    Ok(compared)
}

pub fn check_c04(tier: Tier) -> i32 {
    let t0 = Instant::now();
    let seed = orch::seed_from_env();
    let e = orch::engine("crash-sim").unwrap();
    let count = (e.scenarios)(tier);
    println!("C04 crash-sim: seed {} tier {} scenarios {}", seed, tier.name(), count);
    let batch = orch::run_engine(&e, seed, tier, count, orch::WORKERS);
    // the ledger also across retained lines (one compiler + machine kept over a whole session)
    let sess = orch::engine("session-ledger").unwrap();
    let ns = (sess.scenarios)(tier);
    let bs = orch::run_engine(&sess, seed, tier, ns, orch::WORKERS);
    let mut harness_errors = batch.harness_errors.clone();
    harness_errors.extend(bs.harness_errors.clone());
    let selftest = if batch.violations.is_empty() && harness_errors.is_empty() {
        match determinism_selftest(&e, seed, tier, &batch, 32) {
            Ok(n) => n,
            Err(m) => {
                harness_errors.push(m);
                0
            }
        }
    } else {
        0
    };
    let mut violations = batch.violations.clone();
    violations.extend(bs.violations.clone());
    let nviol = violations.len();
    let verdict = orch::conclude("C04", violations, &harness_errors);
    let acc = &batch.acc;
    let sacc = &bs.acc;
    let wall = t0.elapsed().as_secs_f64();
    let runs = acc.counters.get("runs").cloned().unwrap_or(0);
    let nontrivial = acc.distinct.get("nontrivial_cases").map(|s| s.len()).unwrap_or(0);
    let exhaustive_programs = acc.counters.get("programs").cloned().unwrap_or(0)
        - acc.counters.get("programs_sampled_crash_points").cloned().unwrap_or(0)
        - acc.counters.get("discarded_over_budget").cloned().unwrap_or(0);
    let ev = json!({
        "property_id": "C04",
        "tier": tier.name(),
        "seed": seed,
        "level": "fault_enumeration",
        "coverage": {
            "evaluations": runs,
            "distinct_nontrivial": nontrivial,
            "rule": "seeded type-directed generator of allocating programs (with and without a planted natural failure); for every program the fault-free run of N steps is repeated with an injected error return at instruction k for EVERY k in [0,N) (programs over 400 steps: first 64, last 64, 128 seeded points), each under the shipped collection schedule and under one buggified schedule (extra collections at seeded instruction boundaries or at every boundary); after each run the shadow-heap ledger is audited (nothing left, nothing released twice, result graph valid and releasable once) and after every collection alive == reachable(true roots). A case = (program, crash point, schedule); it is non-trivial when at least one heap object allocated at run time (not a literal) was alive at the crash point; distinct = distinct hash of (program text, k, schedule). Compile-time abort points: the compilation of every program is also cut short at its k-th compilation step (statement or expression, any depth) for every k (programs over 600 steps: first 100, last 100, 200 seeded), ledger audited after each. session-ledger: seeded retained sessions of the C17 engine (one Compiler+VM over up to 12 lines, failing lines, injected run-time and compile-time failures, a caller that releases unreferenced values early or only at the end), judged here by the ledger only: when the pair is dropped and the caller has released what it was handed nothing is left, nothing was released twice, every value handed out was valid.",
            "samples": acc.samples,
            "retained_sessions": get(sacc, "session_sessions"),
            "retained_session_lines": get(sacc, "session_lines"),
            "retained_session_counters": counters_json(sacc),
            "exhaustive": false,
            "exhaustive_note": format!("the crash-point dimension is enumerated completely for {} of {} programs; programs and collection schedules are sampled", exhaustive_programs, acc.counters.get("programs").cloned().unwrap_or(0)),
            "programs": acc.counters.get("programs"),
            "simulated_steps": acc.counters.get("sim_steps"),
            "runs_per_hour": (runs as f64 / wall * 3600.0) as u64,
            "seeds_per_hour": (acc.counters.get("programs").cloned().unwrap_or(0) as f64 / wall * 3600.0) as u64,
            "faults_fired": faults_json(acc),
            "probes": probes_json(acc),
            "distinct_states": distinct_json(acc),
            "distinct_state_measure": "crash_states = distinct (opcode at crash, frame depth<=6, pending-operand bucket, live-object bucket, collected-before flag)",
            "counters": counters_json(acc),
            "determinism_selftest_scenarios_compared": selftest,
            "components": orch::components(),
            "candidate_violations": nviol,
            "known_findings_matched": verdict.known,
        },
        "assumptions": [
            "the step seam reports every instruction boundary; an injected failure takes the same exit path as a run-time error (checked: the error returned is the injected one)",
            "released boxes are quarantined by the hooks, so a stale access is observed, not executed as undefined behaviour",
            "sampling: programs come from the generator of DESIGN.md section 4.1; behaviours listed in section 4.3 are excluded"
        ],
        "wall_s": wall,
        "violations": verdict.reported,
    });
    orch::write_evidence("C04", &ev);
    println!(
        "C04: {} programs, {} runs, {} simulated steps, {} run-time + {} compile-time crash points fired, {} retained sessions (session-ledger), {} distinct non-trivial cases, {} violation(s), {} known, {:.1}s",
        acc.counters.get("programs").cloned().unwrap_or(0),
        runs,
        acc.counters.get("sim_steps").cloned().unwrap_or(0),
        acc.counters.get("fault_crash_fired").cloned().unwrap_or(0),
        acc.counters.get("fault_compile_crash_fired").cloned().unwrap_or(0),
        get(sacc, "session_sessions"),
        nontrivial,
        verdict.reported,
        verdict.known,
        wall
    );
    verdict.exit
}

fn get(acc: &Acc, k: &str) -> u64 {
    acc.counters.get(k).cloned().unwrap_or(0)
}

pub fn check_c03(tier: Tier) -> i32 {
    let t0 = Instant::now();
    let seed = orch::seed_from_env();
    let heap = orch::engine("heap-sim").unwrap();
    let gc = orch::engine("gc-sim").unwrap();
    let (nh, ng) = ((heap.scenarios)(tier), (gc.scenarios)(tier));
    println!("C03 heap-sim + gc-sim: seed {} tier {} scenarios {} + {}", seed, tier.name(), nh, ng);
    let bh = orch::run_engine(&heap, seed, tier, nh, orch::WORKERS);
    let bg = orch::run_engine(&gc, seed, tier, ng, orch::WORKERS);
    // the heap invariants also across retained lines (variables that live across evaluations)
    let sess = orch::engine("session-heap").unwrap();
    let ns = (sess.scenarios)(tier);
    let bs = orch::run_engine(&sess, seed, tier, ns, orch::WORKERS);
    let mut harness_errors = bh.harness_errors.clone();
    harness_errors.extend(bg.harness_errors.clone());
    harness_errors.extend(bs.harness_errors.clone());
    let mut selftest = 0;
    if bh.violations.is_empty() && bg.violations.is_empty() && harness_errors.is_empty() {
        for (e, b, n) in [(&heap, &bh, 32u64), (&gc, &bg, 256u64)] {
            match determinism_selftest(e, seed, tier, b, n) {
                Ok(n) => selftest += n,
                Err(m) => harness_errors.push(m),
            }
        }
    }
    let mut violations = bh.violations.clone();
    violations.extend(bg.violations.clone());
    violations.extend(bs.violations.clone());
    let mut miri: Vec<Value> = Vec::new();
    if tier == Tier::Thorough {
        for (part, n) in [("gc", 64u64), ("programs", 16u64)] {
            let (ran, summary, v) = miri_adjunct("C03", seed, part, n);
            miri.push(json!({"part": part, "n": n, "ran": ran, "summary": summary}));
            if let Some(v) = v {
                violations.push(v);
            }
        }
    }
    let nviol = violations.len();
    let verdict = orch::conclude("C03", violations, &harness_errors);
    let wall = t0.elapsed().as_secs_f64();
    let (ah, ag) = (&bh.acc, &bg.acc);
    let asn = &bs.acc;
    let runs = get(ah, "runs") + get(ag, "gc_sequences") + get(asn, "session_sessions");
    let nontrivial = ah.distinct.get("nontrivial_cases").map(|s| s.len()).unwrap_or(0)
        + ag.distinct.get("nontrivial_cases").map(|s| s.len()).unwrap_or(0);
    let mut samples = ah.samples.clone();
    samples.truncate(3);
    samples.extend(ag.samples.iter().take(2).cloned());
    let mut warnings: Vec<String> = Vec::new();
    for p in ["probe_collection_with_cyclic_array_live", "probe_collection_with_shared_object_live", "fault_extra_collection", "fault_allocator_realloc_moved", "collections_with_live_heap"] {
        if get(ah, p) == 0 {
            warnings.push(format!("probe {} stayed at zero", p));
        }
    }
    for w in &warnings {
        println!("WARNING: {}", w);
    }
    let ev = json!({
        "property_id": "C03",
        "tier": tier.name(),
        "seed": seed,
        "level": "exploration",
        "coverage": {
            "evaluations": runs,
            "distinct_nontrivial": nontrivial,
            "rule": "(a) heap-sim: seeded generator of heap-heavy programs (floats, strings, nested/aliased/cyclic arrays, functions, recursion, calls nested in array literals); each program is run under the shipped collection schedule with the plain allocator and under 3-5 seeded variants of (collection schedule: shipped / extra collections at seeded instruction boundaries / a collection at EVERY instruction boundary) x (allocator: plain / poison-and-park freed blocks / every realloc moves); monitored: every dereference hits a live shadow entry, no double release, after every collection reachable(true roots read from the VM) is a subset of alive and every survivor is unchanged; afterwards the outcome digest must equal the shipped+plain one. A run is non-trivial when at least one collection ran while a heap object was reachable; distinct = distinct event-log hash. (c) session-heap: the directed and seeded random retained sessions of the C17 engine (one Compiler+VM kept across lines, failing lines, injected failures), judged here only by the heap invariants: a value reachable from a variable that lives across lines is never reclaimed, released twice or changed by a collection. (b) gc-sim: seeded operation sequences (<=60 ops, <=16 objects: allocate float/string/array, link/unlink element, add/drop root, collect with the roots split into 1-4 slices with duplicates and immediates, hand over to caller (untrace), caller releases, adopt an object made by another collector, drop the collector) against a reachability model; after every operation shadow alive set == model alive set exactly, managed list == model managed set, values intact. Non-trivial: at least one collection with more than one object.",
            "samples": samples,
            "exhaustive": false,
            "programs": get(ah, "programs"),
            "heap_sim_runs": get(ah, "runs"),
            "gc_sim_sequences": get(ag, "gc_sequences"),
            "retained_sessions_judged_by_heap_invariants": get(asn, "session_sessions"),
            "retained_session_lines": get(asn, "session_lines"),
            "gc_sim_operations": get(ag, "gc_operations"),
            "simulated_steps": get(ah, "sim_steps"),
            "runs_per_hour": (runs as f64 / wall * 3600.0) as u64,
            "seeds_per_hour": ((get(ah, "programs") + get(ag, "gc_sequences")) as f64 / wall * 3600.0) as u64,
            "faults_fired": {"heap_sim": faults_json(ah), "gc_sim_operations": ag.counters.iter().filter(|(k, _)| k.starts_with("gc_op:")).map(|(k, v)| (k.clone(), json!(v))).collect::<serde_json::Map<String, Value>>()},
            "probes": probes_json(ah),
            "distinct_states": {"heap_sim": distinct_json(ah), "gc_sim": distinct_json(ag)},
            "distinct_state_measure": "heap_shapes_at_collection = canonical shape hash of the reachable graph (types, edges, sharing, cycles) x opcode preceding the collection; gc_reachable_shapes_at_collection = shape of the model's reachable graph x ownership x root count",
            "counters": {"heap_sim": counters_json(ah), "gc_sim": counters_json(ag)},
            "determinism_selftest_scenarios_compared": selftest,
            "components": orch::components(),
            "miri_adjunct": miri,
            "warnings": warnings,
            "candidate_violations": nviol,
            "known_findings_matched": verdict.known,
        },
        "assumptions": [
            "between two instructions everything live is on the operand stack, in the globals, in the constant pool or in the last-statement value (so an injected collection at an instruction boundary is legal); validated: the every-step schedule is silent on the repaired collector",
            "gc-sim never creates an edge from a caller-owned array to a collector-managed object: handing an array over transfers responsibility for what is stored into it afterwards",
            "the perturbing allocator modes cannot change the behaviour of code that never reads freed memory"
        ],
        "wall_s": wall,
        "violations": verdict.reported,
    });
    orch::write_evidence("C03", &ev);
    println!(
        "C03: {} programs / {} runs / {} steps (heap-sim), {} sequences / {} ops / {} collections (gc-sim), {} retained sessions (session-heap), {} distinct non-trivial, {} violation(s), {} known, {:.1}s",
        get(ah, "programs"), get(ah, "runs"), get(ah, "sim_steps"), get(ag, "gc_sequences"), get(ag, "gc_operations"), get(ag, "gc_collections"), get(asn, "session_sessions"),
        nontrivial, verdict.reported, verdict.known, wall
    );
    verdict.exit
}

pub fn check_c17(tier: Tier) -> i32 {
    let t0 = Instant::now();
    let seed = orch::seed_from_env();
    let e = orch::engine("session-sim").unwrap();
    let count = (e.scenarios)(tier);
    println!(
        "C17 session-sim: seed {} tier {} scenarios {} ({} directed, {} enumerated, rest random)",
        seed,
        tier.name(),
        count,
        crate::engine_session::DIRECTED,
        crate::engine_session::enumerated_count(tier)
    );
    let batch = orch::run_engine(&e, seed, tier, count, orch::WORKERS);
    let mut harness_errors = batch.harness_errors.clone();
    let selftest = if batch.violations.is_empty() && harness_errors.is_empty() {
        match determinism_selftest(&e, seed, tier, &batch, 48) {
            Ok(n) => n,
            Err(m) => {
                harness_errors.push(m);
                0
            }
        }
    } else {
        0
    };
    let mut violations = batch.violations.clone();
    let mut miri: Vec<Value> = Vec::new();
    if tier == Tier::Thorough {
        let (ran, summary, v) = miri_adjunct("C17", seed, "sessions", 10);
        miri.push(json!({"part": "sessions", "n": 10, "ran": ran, "summary": summary}));
        if let Some(v) = v {
            violations.push(v);
        }
    }
    let nviol = violations.len();
    let verdict = orch::conclude("C17", violations, &harness_errors);
    let acc = &batch.acc;
    let wall = t0.elapsed().as_secs_f64();
    let sessions = get(acc, "sessions");
    let nontrivial = acc.distinct.get("nontrivial_cases").map(|s| s.len()).unwrap_or(0);
    let mut warnings: Vec<String> = Vec::new();
    for p in ["probe_lines_run_after_a_failed_line", "probe_heap_value_on_later_line", "probe_injected_failure_inside_a_call", "probe_injected_failure_with_pending_operands", "fault_parse_failure", "fault_compile_failure", "fault_runtime_failure", "fault_injected_failure_fired"] {
        if get(acc, p) == 0 {
            warnings.push(format!("probe {} stayed at zero", p));
        }
    }
    for w in &warnings {
        println!("WARNING: {}", w);
    }
    let ev = json!({
        "property_id": "C17",
        "tier": tier.name(),
        "seed": seed,
        "level": "fault_enumeration",
        "coverage": {
            "evaluations": sessions,
            "distinct_nontrivial": nontrivial,
            "rule": format!("one retained Compiler+VM pair is driven line by line; every line is compared with eval (same build, fresh state) of the single program made of all completed earlier statements plus that line (value when the line ends in an expression statement, output, error kind and message); after a failing line the model keeps exactly the statements (or, for an injected failure, the top-level assignments counted by the step hook) that completed. Sessions: {} directed, COMPLETE enumeration of all sessions of length {} over an alphabet of {} line templates (declarations, assignments, reads, element assignments, loops, self-contained functions, parse / compile / run-time failures) each additionally with a failure injected at EVERY instruction k of every injectable line and once more with a collection at every instruction boundary, and seeded random sessions of 2-12 lines (10-50% failing lines, failures injected at seeded k, allocator modes plain/poison/move/scatter), and an offset sweep of 2048 two-line sessions (a padding line of exactly o bytes of code, o = 2..2049, then a line full of jumps: a line must mean the same at offset 0 of its own compilation unit and behind o bytes of earlier code). A session is non-trivial when at least one line ran after a failed line; distinct = distinct event-log hash.", crate::engine_session::DIRECTED, if tier == Tier::Quick { "1-2" } else { "1-3" }, crate::engine_session::ALPHABET),
            "samples": acc.samples,
            "exhaustive": false,
            "exhaustive_note": "complete over the stated line alphabet and session length and over all injection points of those sessions; random sessions are sampled",
            "sessions": sessions,
            "lines": get(acc, "lines"),
            "simulated_steps": get(acc, "sim_steps"),
            "runs_per_hour": (sessions as f64 / wall * 3600.0) as u64,
            "seeds_per_hour": (count as f64 / wall * 3600.0) as u64,
            "faults_fired": faults_json(acc),
            "probes": probes_json(acc),
            "distinct_states": distinct_json(acc),
            "distinct_state_measure": "session skeletons (sequence of line kinds incl. failure kinds) x injected-failure state (frame depth, pending-operand bucket, top-level assignments completed)",
            "counters": counters_json(acc),
            "determinism_selftest_scenarios_compared": selftest,
            "components": orch::components(),
            "miri_adjunct": miri,
            "warnings": warnings,
            "candidate_violations": nviol,
            "known_findings_matched": verdict.known,
        },
        "assumptions": [
            "the reference is the same build's eval of the concatenated program: the check is blind to consistent wrongness by design and sensitive only to what retention and failure do",
            "lines that receive an injected failure consist of atomic-effect statements (DESIGN.md 4.2); lines with progressive effects are not injected (except the alphabet's loop template, whose partial state is modelled exactly)",
            "later lines never call functions defined on earlier lines and never reference a name declared by the uncompleted part of a failed line (the property's quantifier excludes both)"
        ],
        "wall_s": wall,
        "violations": verdict.reported,
    });
    orch::write_evidence("C17", &ev);
    println!(
        "C17: {} sessions, {} lines, {} steps, {} lines after a failed line, {} distinct non-trivial, {} violation(s), {} known, {:.1}s",
        sessions, get(acc, "lines"), get(acc, "sim_steps"), get(acc, "probe_lines_run_after_a_failed_line"), nontrivial, verdict.reported, verdict.known, wall
    );
    verdict.exit
}

pub fn check_c16(tier: Tier) -> i32 {
    use crate::engine_purity as ep;
    let t0 = Instant::now();
    let seed = orch::seed_from_env();
    let e = orch::engine("purity-sim").unwrap();
    let count = (e.scenarios)(tier);
    let b = ep::batch(seed, tier);
    println!("C16 purity-sim: seed {} tier {} batch {} programs, {} history/thread scenarios", seed, tier.name(), b.len(), count);
    // Miri adjunct, in the background: plain threads without baton or hooks; its data-race detector is
    // the only oracle here that sees a race INSIDE one instruction (quick: a small sample)
    let miri_n = if tier == Tier::Thorough { 8 } else { 2 };
    let miri_handle = std::thread::spawn(move || miri_adjunct("C16", seed, "threads", miri_n));
    let mut harness_errors: Vec<String> = Vec::new();
    let mut violations: Vec<crate::acc::Violation> = Vec::new();

    // (a) every program once in a fresh process of the optimised build
    let jobs: Vec<(String, Vec<String>)> = (0..b.len())
        .map(|i| (i.to_string(), vec!["one-of-batch".into(), seed.to_string(), tier.name().into(), i.to_string()]))
        .collect();
    let outs = orch::run_children(jobs, orch::WORKERS as usize, std::time::Duration::from_secs(120));
    let mut refs: Vec<String> = Vec::new();
    let mut fresh_deaths = 0;
    for (i, o) in outs.iter().enumerate() {
        let d = o.lines.iter().find_map(|l| l["digest"].as_str().map(|s| s.to_string()));
        match d {
            Some(d) => refs.push(d),
            None => {
                fresh_deaths += 1;
                refs.push(format!("process-died {}", o.status_text));
                if fresh_deaths <= 3 {
                    harness_errors.push(format!("fresh-process evaluation of batch program {} gave no digest ({}): {}", i, o.status_text, o.stderr_tail));
                }
            }
        }
    }
    let discarded = refs.iter().filter(|d| d.as_str() == ep::DISCARD).count();
    let refs_path = orch::verif_dir().join("sim").join("target").join(format!("refs-{}-{}.json", seed, tier.name()));
    let _ = std::fs::write(&refs_path, serde_json::to_string(&refs).unwrap());
    std::env::set_var("NLSIM_REFS", &refs_path);

    // (b) histories and (c) sim-threads
    let batch = orch::run_engine(&e, seed, tier, count, orch::WORKERS);
    harness_errors.extend(batch.harness_errors.clone());
    violations.extend(batch.violations.clone());

    // (d) the same batch, one process per slice, by the second build (no optimisation, debug
    // assertions, overflow checks), compared item by item
    let dev = ep::dev_exe();
    let mut dev_compared = 0u64;
    let mut dev_digests: Vec<Option<String>> = vec![None; b.len()];
    if !dev.exists() {
        harness_errors.push(format!("second build {} is missing (run /verif/check build)", dev.display()));
    } else {
        orch::CHILD_EXE.with(|c| *c.borrow_mut() = Some(dev.clone()));
        let stride = 32usize;
        let jobs: Vec<(String, Vec<String>)> = (0..stride)
            .map(|w| (w.to_string(), vec!["digests".into(), seed.to_string(), tier.name().into(), w.to_string(), stride.to_string()]))
            .collect();
        let outs = orch::run_children(jobs, orch::WORKERS as usize, std::time::Duration::from_secs(1800));
        orch::CHILD_EXE.with(|c| *c.borrow_mut() = None);
        for o in &outs {
            for l in &o.lines {
                if let (Some(i), Some(d)) = (l["index"].as_u64(), l["digest"].as_str()) {
                    dev_digests[i as usize] = Some(d.to_string());
                }
            }
        }
        for i in 0..b.len() {
            match &dev_digests[i] {
                Some(d) => {
                    if d == ep::DISCARD || refs[i] == ep::DISCARD {
                        continue;
                    }
                    dev_compared += 1;
                    if *d != refs[i] {
                        violations.push(ep::build_violation(&b.get(i), &refs[i], d, seed, i as u64));
                    }
                }
                None => {
                    // the second build died on this slice: evaluate alone to name the program
                    let d = ep::fresh_digest_with(&dev, &b.get(i)).unwrap_or_else(|e| format!("? {}", e));
                    if d != ep::DISCARD && refs[i] != ep::DISCARD {
                        dev_compared += 1;
                        if d != refs[i] {
                            violations.push(ep::build_violation(&b.get(i), &refs[i], &d, seed, i as u64));
                        }
                    }
                }
            }
        }
        // programs known to differ between the builds today: reported, each under its own key
        for (k, src) in ep::DIVERGENCE_PROBES.iter().enumerate() {
            let rel = ep::fresh_digest(src).unwrap_or_else(|e| format!("? {}", e));
            let d = ep::fresh_digest_with(&dev, src).unwrap_or_else(|e| format!("? {}", e));
            dev_compared += 1;
            if rel != d {
                violations.push(ep::build_violation(src, &rel, &d, seed, 1_000_000 + k as u64));
            }
        }
    }

    let selftest = if violations.is_empty() && harness_errors.is_empty() {
        match determinism_selftest(&e, seed, tier, &batch, 48) {
            Ok(n) => n,
            Err(m) => {
                harness_errors.push(m);
                0
            }
        }
    } else {
        0
    };
    let mut miri: Vec<Value> = Vec::new();
    if let Ok((ran, summary, v)) = miri_handle.join() {
        miri.push(json!({"part": "threads (3 plain threads evaluating 8 opcode/builtin coverage programs + generated ones, no baton, no hooks: Miri's scheduler and data-race detector)", "generated_programs": miri_n, "ran": ran, "summary": summary}));
        if !ran {
            println!("NOTE: Miri adjunct did not run: {}", summary);
        }
        if let Some(v) = v {
            violations.push(v);
        }
    }
    let nviol = violations.len();
    let verdict = orch::conclude("C16", violations, &harness_errors);
    let _ = std::fs::remove_file(&refs_path);
    let acc = &batch.acc;
    let wall = t0.elapsed().as_secs_f64();
    let evals = b.len() as u64 + get(acc, "evaluations_in_histories") + get(acc, "evaluations_in_thread_runs") + dev_compared;
    let nontrivial = acc.distinct.get("nontrivial_cases").map(|s| s.len()).unwrap_or(0)
        + acc.distinct.get("history_predecessor_pairs").map(|s| s.len()).unwrap_or(0);
    let mut warnings: Vec<String> = Vec::new();
    for p in ["fault_preemption", "probe_evaluation_preempted_midway", "probe_result_digested_and_released_on_another_thread", "fault_allocator_mode_non_plain", "comparisons_history", "comparisons_threads"] {
        if get(acc, p) == 0 {
            warnings.push(format!("probe {} stayed at zero", p));
        }
    }
    if dev_compared == 0 {
        warnings.push("no program was compared between the two builds".into());
    }
    for w in &warnings {
        println!("WARNING: {}", w);
    }
    let mut samples = acc.samples.clone();
    samples.push(json!({"batch_program_0": b.get(0), "fresh_process_digest": refs[0]}));
    let ev = json!({
        "property_id": "C16",
        "tier": tier.name(),
        "seed": seed,
        "level": "exploration",
        "coverage": {
            "evaluations": evals,
            "distinct_nontrivial": nontrivial,
            "rule": "a batch of generated programs over one small shared identifier pool (plus probe programs that use a commonly declared name without declaring it, programs with many constants, failing and printing programs) is evaluated (a) once each in a FRESH PROCESS of the optimised build - the reference; (b) in seeded random HISTORIES with repetition inside one process (10-70 evaluations each, allocator modes plain/poison/move); (c) on 2-16 SIM-THREADS (real OS threads, one baton, a seeded scheduler preempting at VM instruction boundaries, random run lengths or PCT-style change points, half of the results digested and released on another thread, every heap access checked for belonging to the running evaluation); (d) by a SECOND BUILD of the same sources without optimisation and with debug assertions and overflow checks, one process per slice. Every digest (value, output, error) is compared item by item with (a). Distinct non-trivial = distinct thread-run event logs with at least two baton switches + distinct (predecessor, program) pairs in histories.",
            "samples": samples,
            "exhaustive": false,
            "batch_programs": b.len(),
            "batch_programs_discarded_over_budget": discarded,
            "fresh_process_evaluations": b.len(),
            "history_sequences": get(acc, "history_sequences"),
            "thread_runs": get(acc, "thread_runs"),
            "second_build_comparisons": dev_compared,
            "simulated_steps": get(acc, "sim_steps"),
            "runs_per_hour": (evals as f64 / wall * 3600.0) as u64,
            "seeds_per_hour": ((count + b.len() as u64) as f64 / wall * 3600.0) as u64,
            "faults_fired": faults_json(acc),
            "probes": probes_json(acc),
            "distinct_states": distinct_json(acc),
            "distinct_state_measure": "schedule_hashes = distinct sequences of (from,to) baton switches; history_predecessor_pairs = distinct (previous program, program) pairs",
            "counters": counters_json(acc),
            "determinism_selftest_scenarios_compared": selftest,
            "components": orch::components(),
            "miri_adjunct": miri,
            "warnings": warnings,
            "candidate_violations": nviol,
            "known_findings_matched": verdict.known,
        },
        "assumptions": [
            "instruction granularity is the finest interleaving explored (a race inside one instruction is visible only to the Miri adjunct)",
            "guard rails stop an evaluation before the VM's unchecked fast paths would execute undefined behaviour; such outcomes are compared as 'wild:<kind>'",
            "the crate reads no clock, locale, environment or file, so CPU/OS variation is not explored"
        ],
        "wall_s": wall,
        "violations": verdict.reported,
    });
    orch::write_evidence("C16", &ev);
    println!(
        "C16: {} batch programs ({} over budget), {} histories, {} thread runs ({} switches), {} second-build comparisons, {} distinct non-trivial, {} violation(s), {} known, {:.1}s",
        b.len(), discarded, get(acc, "history_sequences"), get(acc, "thread_runs"), get(acc, "fault_preemption"), dev_compared, nontrivial, verdict.reported, verdict.known, wall
    );
    verdict.exit
}

/// Thorough tier: the Miri adjunct (DESIGN.md 3.11). Returns (ran, summary, violation).
pub fn miri_adjunct(property: &str, seed: u64, part: &str, n: u64) -> (bool, String, Option<crate::acc::Violation>) {
    let dir = orch::verif_dir().join("sim");
    // bounded: Miri is two orders of magnitude slower than native code
    let out = std::process::Command::new("timeout")
        .current_dir(&dir)
        .env(
            "MIRIFLAGS",
            if part == "threads" {
                // several Miri schedules: which accesses are unordered depends on the interleaving
                // no artificial happens-before edges from address re-use across threads (they hide races)
                "-Zmiri-permissive-provenance -Zmiri-disable-stacked-borrows -Zmiri-many-seeds=0..4 -Zmiri-address-reuse-cross-thread-rate=0"
            } else {
                "-Zmiri-permissive-provenance -Zmiri-disable-stacked-borrows"
            },
        )
        .env("CARGO_NET_OFFLINE", "true")
        .args(["-k", "10", "1500", "cargo", "+nightly", "miri", "run", "--offline", "--quiet", "--", "miri", &seed.to_string(), part, &n.to_string()])
        .output();
    let out = match out {
        Ok(o) => o,
        Err(e) => return (false, format!("miri not available: {}", e), None),
    };
    let stdout = String::from_utf8_lossy(&out.stdout).to_string();
    let stderr = String::from_utf8_lossy(&out.stderr).to_string();
    if stderr.contains("is not installed") || stderr.contains("no such command") || stderr.contains("toolchain 'nightly") {
        return (false, format!("miri not available: {}", stderr.lines().next().unwrap_or("")), None);
    }
    if out.status.code() == Some(124) || out.status.code() == Some(137) {
        return (false, "miri adjunct stopped after 25 minutes (not finished, nothing concluded)".into(), None);
    }
    let ok_lines: Vec<&str> = stdout.lines().filter(|l| l.starts_with("miri-adjunct")).collect();
    if out.status.success() && !ok_lines.is_empty() && ok_lines.iter().all(|l| l.ends_with("problems=0")) {
        return (true, format!("{} (x{} Miri schedules)", ok_lines[0], ok_lines.len()), None);
    }
    let err = stderr
        .lines()
        .find(|l| l.starts_with("error"))
        .or_else(|| stdout.lines().find(|l| l.contains("finding") || l.contains("!=")))
        .unwrap_or("miri run failed")
        .to_string();
    let key: String = err.chars().filter(|c| !c.is_ascii_digit()).take(60).collect();
    let v = crate::acc::Violation {
        property: property.to_string(),
        class: "miri".into(),
        key: key.clone(),
        detail: format!("Miri adjunct part {} (seed {}, n {}): {}", part, seed, n, err),
        spec: json!({"engine": "miri-adjunct", "kind": "miri", "part": part, "seed": seed, "n": n, "expect": {"class": "miri", "key": key}}),
        seed,
        index: 0,
    };
    (true, err, Some(v))
}
