//! The registered checks: `nlsim check <ID> <tier>`.

use crate::acc::{Acc, Tier};
use crate::orch::{self, BatchResult};
use serde_json::{json, Value};
use std::time::Instant;

fn counters_json(acc: &Acc) -> Value {
    json!(acc.counters)
}

fn faults_json(acc: &Acc) -> Value {
    let mut m = serde_json::Map::new();
    for (k, v) in &acc.counters {
        if let Some(f) = k.strip_prefix("fault_") {
            m.insert(f.to_string(), json!(v));
        }
    }
    Value::Object(m)
}

fn probes_json(acc: &Acc) -> Value {
    let mut m = serde_json::Map::new();
    for (k, v) in &acc.counters {
        if let Some(f) = k.strip_prefix("probe_") {
            m.insert(f.to_string(), json!(v));
        }
    }
    Value::Object(m)
}

fn distinct_json(acc: &Acc) -> Value {
    let mut m = serde_json::Map::new();
    for (k, v) in &acc.distinct {
        m.insert(k.clone(), json!(v.len()));
    }
    Value::Object(m)
}

/// Determinism self-test: the first `n` scenarios again, in one process; per-scenario log hashes
/// must equal those of the 16-process batch.
fn determinism_selftest(e: &orch::EngineDef, seed: u64, tier: Tier, batch: &BatchResult, n: u64) -> Result<u64, String> {
    let n = n.min(batch.scenarios);
    let again = orch::run_engine(e, seed, tier, n, 1);
    if !again.harness_errors.is_empty() {
        return Err(format!("determinism self-test could not run: {}", again.harness_errors.join("; ")));
    }
    let base: std::collections::BTreeMap<u64, u64> = batch.acc.log_hashes.iter().cloned().collect();
    let mut compared = 0;
    for (i, h) in &again.acc.log_hashes {
        match base.get(i) {
            Some(h0) if h0 == h => compared += 1,
            Some(h0) => {
                return Err(format!(
                    "determinism self-test: scenario {} of {} has log hash {:x} in the batch and {:x} when re-run in one process",
                    i, e.name, h0, h
                ))
            }
            None => {}
        }
    }
    Ok(compared)
}

pub fn check_c04(tier: Tier) -> i32 {
    let t0 = Instant::now();
    let seed = orch::seed_from_env();
    let e = orch::engine("crash-sim").unwrap();
    let count = (e.scenarios)(tier);
    println!("C04 crash-sim: seed {} tier {} scenarios {}", seed, tier.name(), count);
    let batch = orch::run_engine(&e, seed, tier, count, orch::WORKERS);
    let mut harness_errors = batch.harness_errors.clone();
    let selftest = if batch.violations.is_empty() && harness_errors.is_empty() {
        match determinism_selftest(&e, seed, tier, &batch, 32) {
            Ok(n) => n,
            Err(m) => {
                harness_errors.push(m);
                0
            }
        }
    } else {
        0
    };
    let violations = batch.violations.clone();
    let nviol = violations.len();
    let verdict = orch::conclude("C04", violations, &harness_errors);
    let acc = &batch.acc;
    let wall = t0.elapsed().as_secs_f64();
    let runs = acc.counters.get("runs").cloned().unwrap_or(0);
    let nontrivial = acc.distinct.get("nontrivial_cases").map(|s| s.len()).unwrap_or(0);
    let exhaustive_programs = acc.counters.get("programs").cloned().unwrap_or(0)
        - acc.counters.get("programs_sampled_crash_points").cloned().unwrap_or(0)
        - acc.counters.get("discarded_over_budget").cloned().unwrap_or(0);
    let ev = json!({
        "property_id": "C04",
        "tier": tier.name(),
        "seed": seed,
        "level": "fault_enumeration",
        "coverage": {
            "evaluations": runs,
            "distinct_nontrivial": nontrivial,
            "rule": "seeded type-directed generator of allocating programs (with and without a planted natural failure); for every program the fault-free run of N steps is repeated with an injected error return at instruction k for EVERY k in [0,N) (programs over 400 steps: first 64, last 64, 128 seeded points), each under the shipped collection schedule and under one buggified schedule (extra collections at seeded instruction boundaries or at every boundary); after each run the shadow-heap ledger is audited (nothing left, nothing released twice, result graph valid and releasable once) and after every collection alive == reachable(true roots). A case = (program, crash point, schedule); it is non-trivial when at least one heap object allocated at run time (not a literal) was alive at the crash point; distinct = distinct hash of (program text, k, schedule).",
            "samples": acc.samples,
            "exhaustive": false,
            "exhaustive_note": format!("the crash-point dimension is enumerated completely for {} of {} programs; programs and collection schedules are sampled", exhaustive_programs, acc.counters.get("programs").cloned().unwrap_or(0)),
            "programs": acc.counters.get("programs"),
            "simulated_steps": acc.counters.get("sim_steps"),
            "runs_per_hour": (runs as f64 / wall * 3600.0) as u64,
            "seeds_per_hour": (acc.counters.get("programs").cloned().unwrap_or(0) as f64 / wall * 3600.0) as u64,
            "faults_fired": faults_json(acc),
            "probes": probes_json(acc),
            "distinct_states": distinct_json(acc),
            "distinct_state_measure": "crash_states = distinct (opcode at crash, frame depth<=6, pending-operand bucket, live-object bucket, collected-before flag)",
            "counters": counters_json(acc),
            "determinism_selftest_scenarios_compared": selftest,
            "components": orch::components(),
            "candidate_violations": nviol,
            "known_findings_matched": verdict.known,
        },
        "assumptions": [
            "the step seam reports every instruction boundary; an injected failure takes the same exit path as a run-time error (checked: the error returned is the injected one)",
            "released boxes are quarantined by the hooks, so a stale access is observed, not executed as undefined behaviour",
            "sampling: programs come from the generator of DESIGN.md section 4.1; behaviours listed in section 4.3 are excluded"
        ],
        "wall_s": wall,
        "violations": verdict.reported,
    });
    orch::write_evidence("C04", &ev);
    println!(
        "C04: {} programs, {} runs, {} simulated steps, {} crash points fired, {} distinct non-trivial cases, {} violation(s), {} known, {:.1}s",
        acc.counters.get("programs").cloned().unwrap_or(0),
        runs,
        acc.counters.get("sim_steps").cloned().unwrap_or(0),
        acc.counters.get("fault_crash_fired").cloned().unwrap_or(0),
        nontrivial,
        verdict.reported,
        verdict.known,
        wall
    );
    verdict.exit
}
