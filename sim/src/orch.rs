//! Parent/worker orchestration, containment and attribution of worker deaths, replay confirmation,
//! known findings, evidence.

use crate::acc::{Acc, Tier, Violation};
use serde_json::{json, Value};
use std::collections::BTreeMap;
use std::io::Read;
use std::process::{Child, Command, Stdio};
use std::time::{Duration, Instant};

pub const DEFAULT_SEED: u64 = 20261004;
pub const WORKERS: u64 = 16;

pub struct EngineDef {
    /// every scenario runs in a process of its own (state cannot leak from one scenario to the next)
    pub isolate: bool,
    pub name: &'static str,
    pub property: &'static str,
    pub scenarios: fn(Tier) -> u64,
    pub scenario: fn(&mut Acc, u64, u64, Tier),
}

pub fn engines() -> Vec<EngineDef> {
    vec![
        EngineDef {
            isolate: false,
            name: "crash-sim",
            property: "C04",
            scenarios: crate::engine_crash::scenarios,
            scenario: crate::engine_crash::scenario,
        },
        EngineDef {
            isolate: false,
            name: "heap-sim",
            property: "C03",
            scenarios: crate::engine_heap::scenarios,
            scenario: crate::engine_heap::scenario,
        },
        EngineDef {
            isolate: false,
            name: "session-sim",
            property: "C17",
            scenarios: crate::engine_session::scenarios,
            scenario: crate::engine_session::scenario,
        },
        EngineDef {
            isolate: true,
            name: "purity-sim",
            property: "C16",
            scenarios: crate::engine_purity::scenarios,
            scenario: crate::engine_purity::scenario,
        },
        EngineDef {
            isolate: false,
            name: "session-heap",
            property: "C03",
            scenarios: crate::engine_session::scenarios_c03,
            scenario: crate::engine_session::scenario_c03,
        },
        EngineDef {
            isolate: false,
            name: "session-ledger",
            property: "C04",
            scenarios: crate::engine_session::scenarios_c04,
            scenario: crate::engine_session::scenario_c04,
        },
        EngineDef {
            isolate: false,
            name: "gc-sim",
            property: "C03",
            scenarios: crate::engine_gc::scenarios,
            scenario: crate::engine_gc::scenario,
        },
    ]
}

pub fn engine(name: &str) -> Option<EngineDef> {
    engines().into_iter().find(|e| e.name == name)
}

pub fn seed_from_env() -> u64 {
    std::env::var("VERIF_SEED")
        .ok()
        .and_then(|s| s.trim().parse::<u64>().ok())
        .unwrap_or(DEFAULT_SEED)
}

pub fn verif_dir() -> std::path::PathBuf {
    std::env::var("VERIF_DIR")
        .map(std::path::PathBuf::from)
        .unwrap_or_else(|_| std::path::PathBuf::from("/verif"))
}

// ---------------------------------------------------------------------------------------------
// worker side

pub enum Indices {
    Stride { offset: u64, stride: u64, count: u64 },
    List(Vec<u64>),
}

impl Indices {
    pub fn parse(s: &str) -> Indices {
        if let Some(rest) = s.strip_prefix("list:") {
            Indices::List(rest.split(',').filter_map(|x| x.parse().ok()).collect())
        } else {
            let p: Vec<u64> = s.split(':').filter_map(|x| x.parse().ok()).collect();
            Indices::Stride {
                offset: p[0],
                stride: p[1],
                count: p[2],
            }
        }
    }
    pub fn to_vec(&self) -> Vec<u64> {
        match self {
            Indices::List(v) => v.clone(),
            Indices::Stride { offset, stride, count } => {
                let mut v = Vec::new();
                let mut i = *offset;
                while i < *count {
                    v.push(i);
                    i += stride;
                }
                v
            }
        }
    }
}

pub fn worker_main(engine_name: &str, seed: u64, tier: Tier, indices: &str, solo: bool) -> i32 {
    let e = match engine(engine_name) {
        Some(e) => e,
        None => {
            eprintln!("unknown engine {}", engine_name);
            return 2;
        }
    };
    if solo {
        crate::sim::TRACE_MARKERS.store(true, std::sync::atomic::Ordering::Relaxed);
    }
    let mut acc = Acc::new(solo);
    for i in Indices::parse(indices).to_vec() {
        crate::sim::marker(&format!("SCENARIO {}", i));
        (e.scenario)(&mut acc, seed, i, tier);
    }
    for v in &acc.violations {
        println!("{}", v.to_json());
    }
    println!("{}", acc.summary_json());
    0
}

// ---------------------------------------------------------------------------------------------
// parent side

pub struct WorkerOut {
    pub indices: String,
    pub status_ok: bool,
    pub status_text: String,
    pub timed_out: bool,
    pub lines: Vec<Value>,
    pub stderr_tail: String,
}

thread_local! {
    /// executable used for child processes (default: this one)
    pub static CHILD_EXE: std::cell::RefCell<Option<std::path::PathBuf>> = const { std::cell::RefCell::new(None) };
}

fn spawn(args: &[String]) -> std::io::Result<Child> {
    let exe = match CHILD_EXE.with(|c| c.borrow().clone()) {
        Some(p) => p,
        None => std::env::current_exe()?,
    };
    Command::new(exe)
        .args(args)
        .stdin(Stdio::null())
        .stdout(Stdio::piped())
        .stderr(Stdio::piped())
        .spawn()
}

/// Runs the given argument vectors as child processes, at most `par` at a time.
pub fn run_children(jobs: Vec<(String, Vec<String>)>, par: usize, deadline: Duration) -> Vec<WorkerOut> {
    let mut results: Vec<Option<WorkerOut>> = (0..jobs.len()).map(|_| None).collect();
    let mut next = 0usize;
    struct Running {
        slot: usize,
        child: Child,
        out: std::thread::JoinHandle<Vec<u8>>,
        err: std::thread::JoinHandle<Vec<u8>>,
        started: Instant,
        label: String,
    }
    let mut running: Vec<Running> = Vec::new();
    loop {
        while running.len() < par && next < jobs.len() {
            let (label, args) = &jobs[next];
            match spawn(args) {
                Ok(mut child) => {
                    let mut so = child.stdout.take().unwrap();
                    let mut se = child.stderr.take().unwrap();
                    let out = std::thread::spawn(move || {
                        let mut b = Vec::new();
                        let _ = so.read_to_end(&mut b);
                        b
                    });
                    let err = std::thread::spawn(move || {
                        let mut b = Vec::new();
                        let _ = se.read_to_end(&mut b);
                        b
                    });
                    running.push(Running {
                        slot: next,
                        child,
                        out,
                        err,
                        started: Instant::now(),
                        label: label.clone(),
                    });
                }
                Err(e) => {
                    results[next] = Some(WorkerOut {
                        indices: label.clone(),
                        status_ok: false,
                        status_text: format!("spawn failed: {}", e),
                        timed_out: false,
                        lines: vec![],
                        stderr_tail: String::new(),
                    });
                }
            }
            next += 1;
        }
        if running.is_empty() && next >= jobs.len() {
            break;
        }
        let mut i = 0;
        let mut progressed = false;
        while i < running.len() {
            let mut timed_out = false;
            let done = match running[i].child.try_wait() {
                Ok(Some(_)) => true,
                Ok(None) => {
                    if running[i].started.elapsed() > deadline {
                        let _ = running[i].child.kill();
                        timed_out = true;
                        true
                    } else {
                        false
                    }
                }
                Err(_) => true,
            };
            if done {
                let mut r = running.swap_remove(i);
                let status = r.child.wait();
                let out = r.out.join().unwrap_or_default();
                let err = r.err.join().unwrap_or_default();
                let text = String::from_utf8_lossy(&out).to_string();
                let lines: Vec<Value> = text
                    .lines()
                    .filter_map(|l| serde_json::from_str::<Value>(l).ok())
                    .collect();
                let errs = String::from_utf8_lossy(&err).to_string();
                let tail: String = {
                    let ls: Vec<&str> = errs.lines().collect();
                    let n = ls.len();
                    ls[n.saturating_sub(12)..].join("\n")
                };
                let (ok, st) = match status {
                    Ok(s) => (s.success(), format!("{}", s)),
                    Err(e) => (false, format!("wait failed: {}", e)),
                };
                results[r.slot] = Some(WorkerOut {
                    indices: r.label,
                    status_ok: ok && !timed_out,
                    status_text: st,
                    timed_out,
                    lines,
                    stderr_tail: tail,
                });
                progressed = true;
            } else {
                i += 1;
            }
        }
        if !progressed {
            std::thread::sleep(Duration::from_millis(5));
        }
    }
    results.into_iter().map(|r| r.unwrap()).collect()
}

pub struct BatchResult {
    pub acc: Acc,
    pub violations: Vec<Violation>,
    pub harness_errors: Vec<String>,
    pub scenarios: u64,
}

/// Runs one engine over `count` scenario indices on WORKERS processes and merges the results.
pub fn run_engine(e: &EngineDef, seed: u64, tier: Tier, count: u64, workers: u64) -> BatchResult {
    // (an isolated scenario - one process each - normally takes well under a second; a short deadline
    // means that an interpreter that blocks, e.g. two sim-threads inside a real `OnceLock`, seeded
    // change e16a, is attributed after minutes instead of a quarter of an hour)
    let deadline = match (tier, e.isolate) {
        (Tier::Quick, true) => Duration::from_secs(180),
        (Tier::Thorough, true) => Duration::from_secs(900),
        (Tier::Quick, false) => Duration::from_secs(900),
        (Tier::Thorough, false) => Duration::from_secs(3 * 3600),
    };
    // more jobs than processes running at a time: evens out scenarios of very different cost
    let njobs = if e.isolate { count } else if workers > 1 { workers * 6 } else { 1 };
    let jobs: Vec<(String, Vec<String>)> = (0..njobs)
        .map(|w| {
            let ind = if e.isolate { format!("list:{}", w) } else { format!("{}:{}:{}", w, njobs, count) };
            (
                ind.clone(),
                vec![
                    "worker".to_string(),
                    e.name.to_string(),
                    seed.to_string(),
                    tier.name().to_string(),
                    ind,
                ],
            )
        })
        .collect();
    let outs = run_children(jobs, if e.isolate { WORKERS as usize } else { workers as usize }, deadline);
    let mut acc = Acc::new(false);
    let mut violations = Vec::new();
    let mut harness_errors = Vec::new();
    for o in &outs {
        let mut complete = false;
        for l in &o.lines {
            match l["type"].as_str() {
                Some("violation") => violations.push(Violation::from_json(l)),
                Some("summary") => {
                    acc.merge_summary(l);
                    complete = true;
                }
                _ => {}
            }
        }
        if !o.status_ok || !complete {
            // a worker died: find the scenario, one process per scenario, with phase markers
            match attribute_death(e, seed, tier, &o.indices, o.timed_out) {
                Some(v) => violations.push(v),
                None => harness_errors.push(format!(
                    "worker {} of engine {} ended abnormally ({}{}) and the death could not be reproduced per scenario; stderr tail:\n{}",
                    o.indices,
                    e.name,
                    o.status_text,
                    if o.timed_out { ", timed out" } else { "" },
                    o.stderr_tail
                )),
            }
        }
    }
    violations.sort_by(|a, b| a.index.cmp(&b.index));
    acc.log_hashes.sort();
    BatchResult {
        acc,
        violations,
        harness_errors,
        scenarios: count,
    }
}

fn attribute_death(e: &EngineDef, seed: u64, tier: Tier, indices: &str, timed_out: bool) -> Option<Violation> {
    let all = Indices::parse(indices).to_vec();
    let jobs: Vec<(String, Vec<String>)> = all
        .iter()
        .map(|i| {
            (
                i.to_string(),
                vec![
                    "worker".to_string(),
                    e.name.to_string(),
                    seed.to_string(),
                    tier.name().to_string(),
                    format!("list:{}", i),
                    "solo".to_string(),
                ],
            )
        })
        .collect();
    let deadline = if timed_out { Duration::from_secs(120) } else { Duration::from_secs(600) };
    let outs = run_children(jobs, WORKERS as usize, deadline);
    for o in outs {
        let complete = o.lines.iter().any(|l| l["type"] == "summary");
        if o.status_ok && complete {
            continue;
        }
        let index: u64 = o.indices.parse().unwrap_or(0);
        let last_begin = o.lines.iter().rev().find(|l| l["type"] == "begin");
        let markers: Vec<&str> = o
            .stderr_tail
            .lines()
            .filter(|l| l.starts_with("@@"))
            .collect();
        let phase = markers.last().map(|m| m.trim_start_matches("@@").to_string()).unwrap_or_else(|| "?".into());
        let phase_key = phase.split(' ').next().unwrap_or("?").to_string();
        let how = if o.timed_out { "hang".to_string() } else { "death".to_string() };
        let mut spec = last_begin.map(|l| l["spec"].clone()).unwrap_or(json!({"engine": e.name}));
        spec["expect"] = json!({"class": "crash", "key": format!("{}@{}", how, phase_key)});
        return Some(Violation {
            property: e.property.to_string(),
            class: "crash".into(),
            key: format!("{}@{}", how, phase_key),
            detail: format!(
                "the process evaluating scenario {} of {} ended abnormally ({}), last phase marker {:?}; stderr tail: {}",
                index,
                e.name,
                o.status_text,
                phase,
                o.stderr_tail.lines().filter(|l| !l.starts_with("@@")).collect::<Vec<_>>().join(" / ")
            ),
            spec,
            seed,
            index,
        });
    }
    None
}

// ---------------------------------------------------------------------------------------------
// known findings

pub struct Known {
    pub entries: Vec<Value>,
}

impl Known {
    pub fn load() -> Known {
        let p = verif_dir().join("known_findings.json");
        let entries = std::fs::read_to_string(&p)
            .ok()
            .and_then(|s| serde_json::from_str::<Value>(&s).ok())
            .and_then(|v| v["findings"].as_array().cloned())
            .unwrap_or_default();
        Known { entries }
    }

    /// The entry (status "known") matching this violation, if any.
    pub fn matches(&self, v: &Violation) -> Option<&Value> {
        self.entries.iter().find(|e| {
            e["status"] == "known"
                && e["property"].as_str() == Some(&v.property)
                && e["class"].as_str() == Some(&v.class)
                && e["key"].as_str() == Some(&v.key)
        })
    }
}

// ---------------------------------------------------------------------------------------------
// replay files

pub fn write_replay(v: &Violation) -> std::path::PathBuf {
    let dir = verif_dir().join("replays");
    let _ = std::fs::create_dir_all(&dir);
    let safe: String = format!("{}-{}", v.class, v.key)
        .chars()
        .map(|c| if c.is_ascii_alphanumeric() || c == '-' { c } else { '_' })
        .take(60)
        .collect();
    let p = dir.join(format!("{}-{}-{}-{}.json", v.property, v.seed, v.index, safe));
    let body = json!({
        "property": v.property,
        "class": v.class,
        "key": v.key,
        "detail": v.detail,
        "seed": v.seed,
        "index": v.index,
        "spec": v.spec,
    });
    let _ = std::fs::write(&p, serde_json::to_string_pretty(&body).unwrap());
    p
}

/// Re-executes a replay file in a fresh process. Returns Some((class,key,detail)) when the
/// violation named in the file reproduced.
pub fn confirm_replay(path: &std::path::Path) -> Result<bool, String> {
    let outs = run_children(
        vec![("replay".into(), vec!["replay".into(), path.to_string_lossy().to_string()])],
        1,
        Duration::from_secs(900),
    );
    let o = &outs[0];
    let reproduced = o.lines.iter().any(|l| l["type"] == "replay" && l["reproduced"] == true);
    let not = o.lines.iter().any(|l| l["type"] == "replay" && l["reproduced"] == false);
    if reproduced {
        Ok(true)
    } else if not {
        Ok(false)
    } else {
        Err(format!("replay process gave no verdict ({}): {}", o.status_text, o.stderr_tail))
    }
}

pub fn shrink_in_child(path: &std::path::Path) {
    let _ = run_children(
        vec![("shrink".into(), vec!["shrink".into(), path.to_string_lossy().to_string()])],
        1,
        Duration::from_secs(300),
    );
}

// ---------------------------------------------------------------------------------------------
// final verdict + evidence

pub struct Verdict {
    pub exit: i32,
    pub reported: usize,
    pub known: usize,
}

/// Minimises, writes, confirms and prints the violations; applies the known-findings file.
pub fn conclude(property: &str, violations: Vec<Violation>, harness_errors: &[String]) -> Verdict {
    let known = Known::load();
    let mut exit = 0;
    let mut reported = 0;
    let mut known_n = 0;
    // one report per distinct (class,key)
    let mut seen: BTreeMap<(String, String), ()> = BTreeMap::new();
    for v in violations {
        if v.property != property {
            continue;
        }
        if seen.insert((v.class.clone(), v.key.clone()), ()).is_some() {
            continue;
        }
        if seen.len() > 12 {
            break;
        }
        let path = write_replay(&v);
        let original = std::fs::read_to_string(&path).unwrap_or_default();
        if v.class != "crash" {
            shrink_in_child(&path);
            // a minimised scenario that does not reproduce in a fresh process is discarded
            if !matches!(confirm_replay(&path), Ok(true)) {
                let _ = std::fs::write(&path, &original);
            }
        }
        // the minimised file names the violation it reproduces (class/key may have been refined)
        let (class, key, detail) = std::fs::read_to_string(&path)
            .ok()
            .and_then(|s| serde_json::from_str::<Value>(&s).ok())
            .map(|j| {
                (
                    j["class"].as_str().unwrap_or(&v.class).to_string(),
                    j["key"].as_str().unwrap_or(&v.key).to_string(),
                    j["detail"].as_str().unwrap_or(&v.detail).to_string(),
                )
            })
            .unwrap_or((v.class.clone(), v.key.clone(), v.detail.clone()));
        match confirm_replay(&path) {
            Ok(true) => {
                let vv = Violation {
                    class: class.clone(),
                    key: key.clone(),
                    ..v.clone()
                };
                if let Some(k) = known.matches(&vv) {
                    println!(
                        "KNOWN-FINDING: property={} {} [{}:{}]",
                        property,
                        k["what"].as_str().unwrap_or(""),
                        class,
                        key
                    );
                    known_n += 1;
                    let _ = std::fs::remove_file(&path);
                } else {
                    println!("violation class={} key={} : {}", class, key, detail);
                    println!("VIOLATION property={} replay={}", property, path.display());
                    reported += 1;
                    exit = 1;
                }
            }
            Ok(false) => {
                println!(
                    "HARNESS-ERROR: candidate violation {}:{} did not reproduce from {} (determinism hole)",
                    class,
                    key,
                    path.display()
                );
                if exit == 0 {
                    exit = 2;
                }
            }
            Err(e) => {
                println!("HARNESS-ERROR: {}", e);
                if exit == 0 {
                    exit = 2;
                }
            }
        }
    }
    for (i, h) in harness_errors.iter().enumerate() {
        if i < 5 {
            println!("HARNESS-ERROR: {}", h);
        } else if i == 5 {
            println!("HARNESS-ERROR: ... and {} more", harness_errors.len() - 5);
        }
        if exit == 0 {
            exit = 2;
        }
    }
    Verdict {
        exit,
        reported,
        known: known_n,
    }
}

pub fn write_evidence(property: &str, body: &Value) {
    let dir = verif_dir().join("evidence");
    let _ = std::fs::create_dir_all(&dir);
    let p = dir.join(format!("{}.json", property));
    let _ = std::fs::write(&p, serde_json::to_string_pretty(body).unwrap());
}

pub fn components() -> Value {
    json!({
        "real": ["lexer", "parser", "compiler", "symbol table", "VM dispatch loop", "object encoding", "builtins", "collector (all of /repo/src, built from the working tree with feature verif)"],
        "stubbed_or_simulated": ["stdout (print captured per evaluation)", "allocator (System wrapped: plain/poison/move modes, counters)", "OS scheduling of caller threads (baton scheduler)", "collection schedule (shipped schedule always on; extra collections injected at instruction boundaries)", "interactive prompt (session driver on the library Compiler+VM pair)"],
        "not_injected": ["allocation failure (aborts)", "stdout write errors", "stdin faults"]
    })
}
